package props

import (
	"fmt"
	"go/ast"
	"go/constant"
	"go/types"
	"os"
	"sort"
	"strings"

	"golang.org/x/tools/go/ssa"

	"mcverif/internal/ir"
)

func init() { Registry["C18"] = C18 }

// Seg is one segment of a key layout.
type Seg struct {
	Kind string   // Const BE64 LE64 VAR LenPrefixed Raw
	Arg  string   // origin of the encoded value (param name) or constant bytes (hex)
	E    *ir.Expr // the encoded value's origin expression (nil for constants)
}

func (s Seg) String() string {
	if s.Arg == "" {
		return s.Kind
	}
	return s.Kind + "(" + s.Arg + ")"
}

func shapeStr(ss []Seg) string {
	var p []string
	for _, s := range ss {
		p = append(p, s.String())
	}
	return strings.Join(p, "·")
}

// PrefixVar describes a package-level []byte prefix variable.
type PrefixVar struct {
	Name   string // relpkg.Var
	Bytes  []byte
	Pos    string
	LitOK  bool // initialised by a []byte{...} composite literal of constants (cap == len)
	Module string
}

// prefixVars evaluates the package-level []byte variables of x/<m>/types.
func prefixVars(c *Ctx, m string) []PrefixVar {
	pk := c.W.Pkg("x/" + m + "/types")
	if pk == nil {
		return nil
	}
	var out []PrefixVar
	sc := pk.Types.Scope()
	for _, name := range sc.Names() {
		v, ok := sc.Lookup(name).(*types.Var)
		if !ok {
			continue
		}
		sl, ok := v.Type().Underlying().(*types.Slice)
		if !ok {
			continue
		}
		if b, ok := sl.Elem().Underlying().(*types.Basic); !ok || b.Kind() != types.Uint8 {
			continue
		}
		pv := PrefixVar{Name: "x/" + m + "/types." + name, Pos: c.W.Pos(v.Pos()), Module: m}
		if init := c.W.VarInit(pk, name); init != nil {
			if cl, ok := init.(*ast.CompositeLit); ok {
				pv.LitOK = true
				for _, el := range cl.Elts {
					tv, ok := pk.TypesInfo.Types[el]
					if !ok || tv.Value == nil {
						pv.LitOK = false
						break
					}
					n, ok := constant.Int64Val(constant.ToInt(tv.Value))
					if !ok {
						pv.LitOK = false
						break
					}
					pv.Bytes = append(pv.Bytes, byte(n))
				}
			}
		}
		out = append(out, pv)
	}
	return out
}

// keyShape interprets an (expanded) key expression as a segment list.
func keyShape(c *Ctx, e *ir.Expr, depth int) ([]Seg, error) {
	if depth > 10 {
		return nil, fmt.Errorf("too deep")
	}
	switch e.Op {
	case "global":
		return []Seg{{Kind: "Const", Arg: e.Name}}, nil
	case "enc":
		k := map[string]string{"be64": "BE64", "le64": "LE64", "be32": "BE32", "le32": "LE32", "varint": "VAR"}[e.Name]
		if k == "" {
			k = "ENC:" + e.Name
		}
		return []Seg{{Kind: k, Arg: e.Args[0].String(), E: e.Args[0]}}, nil
	case "makeslice":
		if len(e.Args) >= 1 && e.Args[0].Op == "const" && e.Args[0].Name == "0" {
			return nil, nil // an empty buffer
		}
	case "param":
		return []Seg{{Kind: "Raw", Arg: e.String(), E: e}}, nil
	case "conv":
		return keyShape(c, e.Args[0], depth+1)
	case "call":
		switch {
		case e.Name == "builtin:append" && len(e.Args) == 2 && !(e.Args[0].Op == "makeslice" && len(e.Args[0].Args) >= 1 && e.Args[0].Args[0].Op == "const" && e.Args[0].Args[0].Name == "0"):
			a, err := keyShape(c, e.Args[0], depth+1)
			if err != nil {
				return nil, err
			}
			b, err := keyShape(c, e.Args[1], depth+1)
			if err != nil {
				return nil, err
			}
			return append(a, b...), nil
		case strings.HasSuffix(e.Name, "cosmos-sdk/types.Uint64ToBigEndian") && len(e.Args) == 1:
			// the SDK's fixed-width encoder: make([]byte, 8) + binary.BigEndian.PutUint64
			return []Seg{{Kind: "BE64", Arg: e.Args[0].String(), E: e.Args[0]}}, nil
		case e.Name == "builtin:append" && len(e.Args) == 2 && e.Args[0].Op == "makeslice":
			// append(make([]byte, 0, n), x...): an empty buffer followed by x
			if z := e.Args[0].Args; len(z) >= 1 && z[0].Op == "const" && z[0].Name == "0" {
				return keyShape(c, e.Args[1], depth+1)
			}
		case strings.Contains(e.Name, "encoding/binary.") && strings.Contains(e.Name, ").AppendUint") && len(e.Args) == 3:
			// binary.<Order>.AppendUintN(buf, v) = buf · <order><bits>(v)
			a, err := keyShape(c, e.Args[1], depth+1)
			if err != nil {
				return nil, err
			}
			kind := "BE64"
			switch {
			case strings.Contains(e.Name, "littleEndian") && strings.HasSuffix(e.Name, "AppendUint64"):
				kind = "LE64"
			case strings.Contains(e.Name, "littleEndian") && strings.HasSuffix(e.Name, "AppendUint32"):
				kind = "LE32"
			case strings.HasSuffix(e.Name, "AppendUint32"):
				kind = "BE32"
			case strings.HasSuffix(e.Name, "AppendUint16"):
				kind = "ENC:16"
			}
			return append(a, Seg{Kind: kind, Arg: e.Args[2].String(), E: e.Args[2]}), nil
		case strings.HasSuffix(e.Name, "types/address.MustLengthPrefix") && len(e.Args) == 1:
			return []Seg{{Kind: "LenPrefixed", Arg: e.Args[0].String(), E: e.Args[0]}}, nil
		case strings.HasSuffix(e.Name, "types.AccAddress).Bytes") && len(e.Args) == 1:
			return []Seg{{Kind: "Raw", Arg: e.Args[0].String(), E: e.Args[0]}}, nil
		case e.Callee != nil:
			if in := c.W.Inline(e); in != nil {
				return keyShape(c, in, depth+1)
			}
		}
	case "phi":
		// a key assembled in a loop over a literal list of parts (composeKey(prefix, a, b)):
		//   phi( append(<loop>, F(elem(list(a, b), i))), <base> )  =  <base> · F(a) · F(b)
		if len(e.Args) == 2 {
			for bi := 0; bi < 2; bi++ {
				base, step := e.Args[bi], e.Args[1-bi]
				// the step appends to the loop-carried buffer: append(<loop>, x...) or binary.<Order>.AppendUintN(<loop>, v)
				binApp := step.Op == "call" && strings.Contains(step.Name, "encoding/binary.") && strings.Contains(step.Name, ").AppendUint") && len(step.Args) == 3 && step.Args[1].Op == "loop"
				if !(step.Op == "call" && step.Name == "builtin:append" && len(step.Args) == 2 && step.Args[0].Op == "loop") && !binApp {
					continue
				}
				if binApp {
					// the same step with an empty buffer, as an append of its own encoding
					empty := &ir.Expr{Op: "makeslice", Args: []*ir.Expr{{Op: "const", Name: "0"}}}
					enc := *step
					enc.Args = []*ir.Expr{step.Args[0], empty, step.Args[2]}
					step = &ir.Expr{Op: "call", Name: "builtin:append", Args: []*ir.Expr{step.Args[1], &enc}}
				}
				var list *ir.Expr
				step.Args[1].Walk(func(x *ir.Expr) bool {
					if x.Op == "elem" && len(x.Args) == 2 && x.Args[0].Op == "list" && list == nil {
						list = x
						return false
					}
					return true
				})
				if list == nil {
					break
				}
				out, err := keyShape(c, base, depth+1)
				if err != nil {
					return nil, err
				}
				for _, part := range list.Args[0].Args {
					item := ir.Replace(step.Args[1], list, part)
					sgs, err := keyShape(c, item, depth+1)
					if err != nil {
						return nil, err
					}
					out = append(out, sgs...)
				}
				return out, nil
			}
		}
		var first []Seg
		for i, a := range e.Args {
			s, err := keyShape(c, a, depth+1)
			if err != nil {
				return nil, err
			}
			if i == 0 {
				first = s
			} else if shapeStr(first) != shapeStr(s) {
				return nil, fmt.Errorf("alternatives with different layouts: %s vs %s", shapeStr(first), shapeStr(s))
			}
		}
		return first, nil
	}
	return nil, fmt.Errorf("uninterpreted key part %s", e.String())
}

type builderInfo struct {
	Fn    *ssa.Function
	Shape []Seg
}

func C18(c *Ctx) {
	w, r := c.W, c.R
	r.Explanation = "Key-shape abstract interpretation (A11) over go/ssa origins: every function of x/*/types returning a store key is interpreted into a segment list over {Const(prefix var), BE64(x), LenPrefixed(x), Raw(x)}; " +
		"decided per module: section prefixes are distinct single constant bytes initialised by composite literals and never written; every store access in module code uses a key whose first segment is such a prefix (so sections cannot alias); " +
		"each builder is injective (all segments fixed-width or length-prefixed, at most a trailing Raw); integers are big-endian (byte order = numeric order); iteration prefixes end on a segment boundary of the builders of their section; " +
		"the stream-key parsers read exactly the offsets the builder writes and return (receiver, sender) in builder order; query callbacks re-prefix with the section they iterate. Covers all identifier/height/address values because the layout, not sampled values, is analysed."
	r.Rules = []string{"A11.prefix-distinct", "A11.prefix-immutable", "A12.item-identity", "A11.iter-end-bound", "A11.section-resolved", "A11.injective", "A11.big-endian", "A11.iter-prefix", "A11.iter-confined", "A11.parser", "A11.reprefix", "A11.append-alias", "A11.listing-order", "A6.persistent-store", "A12.decode-fresh"}
	appendAlias(c)
	r.Trusted = []string{"address.MustLengthPrefix emits one length byte + payload and panics above 255 bytes", "sdk.KVStorePrefixIterator / prefix.Store semantics", "binary.BigEndian.PutUint64"}
	r.NotDecided = []string{"behaviour of the IAVL store itself"}

	allPrefix := map[string]PrefixVar{}
	storeEff := w.AllEffects(func(e ir.Effect) bool { return strings.HasPrefix(e.Kind, "Store") })
	used := map[string]bool{}
	for _, e := range storeEff {
		if ir.ModuleOf(e.Fn) != "" && e.Section != "?" {
			used[e.Section] = true
		}
	}
	for _, m := range ir.Modules {
		var pvs []PrefixVar
		for _, pv := range prefixVars(c, m) {
			if used[pv.Name] {
				pvs = append(pvs, pv)
			}
		}
		r.Analysed["prefix_vars_"+m] = len(pvs)
		floor := map[string]int{"enterprise": 10, "wrkchain": 5, "beacon": 5, "stream": 2}[m]
		r.Floor("store prefix variables of "+m, len(pvs), floor)
		byByte := map[byte][]string{}
		for _, pv := range pvs {
			allPrefix[pv.Name] = pv
			ok := pv.LitOK && len(pv.Bytes) == 1
			r.Require(ok, "A11.prefix-distinct", "literal|"+pv.Name, pv.Pos, "section prefix is a one-byte constant composite literal", fmt.Sprintf("bytes=%x literal=%v", pv.Bytes, pv.LitOK))
			if len(pv.Bytes) >= 1 {
				byByte[pv.Bytes[0]] = append(byByte[pv.Bytes[0]], pv.Name)
			}
		}
		for b, names := range byByte {
			sort.Strings(names)
			r.Require(len(names) == 1, "A11.prefix-distinct", fmt.Sprintf("byte|%s|%s", m, names[0]), "", "no two sections of a module share a first byte", fmt.Sprintf("0x%02x used by %v", b, names))
		}
	}
	// prefix variables are never written or re-sliced with spare capacity
	writes := w.AllEffects(func(e ir.Effect) bool { return e.Kind == "GlobalWrite" })
	nw := 0
	for _, e := range writes {
		if _, ok := allPrefix[e.Method]; ok && !strings.HasSuffix(fn(e.Fn), ".init") {
			nw++
			r.Bad("A11.prefix-immutable", "write|"+e.Method+"|"+fn(e.Fn), pos(c, e.Site), "prefix variables are never assigned after initialisation", "store in "+fn(e.Fn))
		}
	}
	if nw == 0 {
		r.OK("A11.prefix-immutable", "none", "", "no assignment to a prefix variable outside package init")
	}
	r.Control("A11.prefix-immutable", "fixtures/c18", len(w.FixtureEffects(func(e ir.Effect) bool { return e.Kind == "GlobalWrite" })) > 0)

	// a listed stream carries the parties of its key
	r.Floor("stream list items checked for party identity", streamItemIdentity(c), 3)

	// raw iterators never end at an ordinary key
	{
		var mods, fix []*ssa.Function
		for _, f := range w.Funcs {
			switch {
			case ir.IsFixture(f) && strings.Contains(fn(f), "fixtures/c18"):
				fix = append(fix, f)
			case !w.IsGenerated(f) && !ir.IsFixture(f) && ir.ModuleOf(f) != "":
				mods = append(mods, f)
			}
		}
		sortFuncs(mods)
		ni, nbad := iterEndBounds(c, "A11.iter-end-bound", mods, true)
		if nbad == 0 {
			r.OK("A11.iter-end-bound", "none", "", fmt.Sprintf("no raw store iterator with an ordinary key as its (exclusive) end bound (%d raw iterators)", ni))
		}
		_, fb := iterEndBounds(c, "A11.iter-end-bound", fix, false)
		r.Control("A11.iter-end-bound", "fixtures/c18", fb >= 1)
	}

	// every store access in module (non-migration) code resolves to a section
	nStore := 0
	for _, e := range storeEff {
		m := ir.ModuleOf(e.Fn)
		if m == "" {
			continue
		}
		nStore++
		if e.Generic {
			// a helper that is handed the prefix or the key: judged where it is called (the effect re-created at each call site)
			r.OK("A11.section-resolved", fn(e.Fn)+"|"+e.Kind+"|by-parameter", pos(c, e.Site), "store access through a key or prefix handed in by the caller: resolved at every call site")
			continue
		}
		pv, ok := allPrefix[e.Section]
		good := ok && pv.Module == m
		if strings.Contains(fn(e.Fn), "/migrations/") || strings.Contains(fn(e.Fn), "/simulation") {
			good = good || e.Section != "?"
			if pvm, ok2 := allPrefix[e.Section]; ok2 {
				good = pvm.Module == m
			}
		}
		r.Require(good, "A11.section-resolved", fn(e.Fn)+"|"+e.Kind+"|"+e.Section, pos(c, e.Site), "every store access uses a key starting with one of its own module's prefix variables", "section: "+e.Section)
	}
	r.Floor("store accesses in module code", nStore, 60)

	// key builders
	builders := map[string][]builderInfo{} // section -> builders
	nb := 0
	for _, m := range ir.Modules {
		for _, f := range w.PkgFuncs("x/" + m + "/types") {
			if w.IsGenerated(f) || f.Parent() != nil || f.Signature.Recv() != nil || f.Signature.Results().Len() != 1 {
				continue
			}
			if f.Signature.Results().At(0).Type().String() != "[]byte" {
				continue
			}
			sum := w.Expand(w.Summary(f), 6)
			if sum.Op == "tuple" {
				sum = sum.Args[0]
			}
			sec := w.SectionOfKey(sum)
			shape, err := keyShape(c, sum, 0)
			if sec == "?" {
				// helper producing a key fragment (e.g. id bytes): must still be a recognised encoding
				if err == nil && len(shape) >= 1 && shape[0].Kind != "Const" {
					bigEndian(c, f, shape)
				}
				continue
			}
			nb++
			if err != nil {
				r.Undecided("A11.injective", fn(f), w.Pos(f.Pos()), "key builder layout is interpretable", err.Error())
				continue
			}
			builders[sec] = append(builders[sec], builderInfo{f, shape})
			// injective: fixed-width or length-prefixed, except a final Raw
			inj := true
			for i, s := range shape {
				switch s.Kind {
				case "Const", "BE64", "LE64", "BE32", "LE32", "LenPrefixed":
				case "Raw":
					if i != len(shape)-1 {
						inj = false
					}
				default:
					inj = false
				}
			}
			r.Require(inj, "A11.injective", fn(f), w.Pos(f.Pos()), "key layout is injective: every segment fixed-width or length-prefixed, at most one trailing raw segment", "layout "+shapeStr(shape))
			bigEndian(c, f, shape)
			// distinct parameters feed distinct segments
			args := map[string]int{}
			for _, s := range shape {
				if s.Kind != "Const" {
					args[s.Arg]++
				}
			}
			np := len(f.Params)
			r.Require(len(args) == np, "A11.injective", "params|"+fn(f), w.Pos(f.Pos()), "every parameter of the key builder is encoded in its own segment", fmt.Sprintf("layout %s for %d parameters", shapeStr(shape), np))
		}
	}
	r.Floor("key builders", nb, 16)

	// iteration prefixes and point keys are builder layouts (or segment-boundary prefixes of them)
	nIter := 0
	for _, e := range storeEff {
		if ir.ModuleOf(e.Fn) == "" || e.Key == nil || strings.Contains(fn(e.Fn), "/migrations/") {
			continue
		}
		if _, ok := allPrefix[e.Section]; !ok {
			continue
		}
		shape, err := keyShape(c, w.Expand(e.Key, 6), 0)
		if e.Prefix != nil {
			// an access through a prefix store: the key in the underlying store is the store's prefix followed by the key
			// given (nil: the whole prefix store; a full key with the leading prefix bytes sliced off: the rest of it)
			var pshape, kshape []Seg
			pshape, err = keyShape(c, w.Expand(e.Prefix, 6), 0)
			if err == nil {
				k := w.Expand(e.Key, 6)
				switch {
				case k.Op == "const" && k.Name == "nil":
				case k.Op == "slice" && len(k.Args) >= 2 && k.Args[1].Op == "call" && k.Args[1].Name == "builtin:len" && len(k.Args[1].Args) == 1 && k.Args[1].Args[0].Op == "global":
					var full []Seg
					full, err = keyShape(c, k.Args[0], 0)
					if err == nil {
						if len(full) > 0 && full[0].Kind == "Const" && full[0].Arg == k.Args[1].Args[0].Name {
							kshape = full[1:]
						} else {
							err = fmt.Errorf("sliced key does not start with the prefix sliced off: %s", k.String())
						}
					}
				default:
					kshape, err = keyShape(c, k, 0)
				}
			}
			shape = append(append([]Seg{}, pshape...), kshape...)
		}
		if err != nil {
			r.Undecided("A11.iter-prefix", fn(e.Fn)+"|"+e.Kind+"|"+e.Section, pos(c, e.Site), "key expression is interpretable", err.Error())
			continue
		}
		nIter++
		isIter := e.Kind == "StoreIter"
		ok := false
		var want []string
		for _, b := range builders[e.Section] {
			want = append(want, shapeStr(b.Shape))
			if isIter {
				if len(shape) <= len(b.Shape) && kindsEqual(shape, b.Shape[:len(shape)]) {
					ok = true
				}
			} else if kindsEqual(shape, b.Shape) && len(shape) == len(b.Shape) {
				ok = true
			}
		}
		if len(builders[e.Section]) == 0 {
			// constant-key section (params, counters): the key must be the bare prefix
			ok = len(shape) == 1 && shape[0].Kind == "Const"
			want = []string{"Const"}
		}
		if !isIter {
			// point access must use the longest layout of its section (full key), unless the section has a single-segment key
			max := 0
			for _, b := range builders[e.Section] {
				if len(b.Shape) > max {
					max = len(b.Shape)
				}
			}
			if max > 0 && len(shape) != max {
				ok = false
			}
		}
		r.Require(ok, "A11.iter-prefix", fn(e.Fn)+"|"+e.Kind+"|"+e.Section, pos(c, e.Site), "key is a full builder layout of its section (iteration: a segment-boundary prefix of one)", fmt.Sprintf("layout %s; section layouts %v", shapeStr(shape), want))
	}
	r.Analysed["keyed_store_accesses_interpreted"] = nIter

	// iterations on transaction and block paths stay inside one owner's records: in a section whose keys lead with an
	// owner segment (<prefix><id><...>), what confines the scan — the prefix of the prefix store it runs on, the key of a
	// prefix iterator — reaches at least to the end of that segment. A range scan from some key to the end of the whole
	// section runs on into the next owner's records as soon as this owner has none left.
	scope := consensusScope(c, []string{"MSG", "ANTE", "BEGIN", "END"})
	nConf := 0
	for _, e := range storeEff {
		if e.Kind != "StoreIter" || ir.ModuleOf(e.Fn) == "" || e.Via != nil || strings.Contains(fn(e.Fn), "/migrations/") {
			continue
		}
		if _, in := scope[e.Fn]; !in {
			continue
		}
		maxSeg := 0
		for _, b := range builders[e.Section] {
			if len(b.Shape) > maxSeg {
				maxSeg = len(b.Shape)
			}
		}
		if maxSeg < 3 {
			continue
		}
		confine := e.Key
		switch {
		case e.Prefix != nil:
			confine = e.Prefix
		case e.Method == "Iterator" || e.Method == "ReverseIterator":
			// a raw range scan on the plain store: confined by its own bounds (judged by A11.iter-end-bound)
			continue
		}
		if confine == nil {
			continue
		}
		nConf++
		shape, err := keyShape(c, w.Expand(confine, 6), 0)
		if err != nil {
			r.Undecided("A11.iter-confined", fn(e.Fn)+"|"+e.Section, pos(c, e.Site), "the confining prefix is interpretable", err.Error())
			continue
		}
		ranged := e.Prefix != nil && e.Key != nil && !(e.Key.Op == "const" && e.Key.Name == "nil")
		r.Require(len(shape) >= 2 || !ranged, "A11.iter-confined", fn(e.Fn)+"|"+e.Section, pos(c, e.Site),
			"a scan that starts at a key of one owner is confined to that owner's records (the store prefix reaches the owner segment)",
			fmt.Sprintf("scan from %s over a store confined only by %s", e.Key.String(), shapeStr(shape)))
	}
	r.Analysed["iterations_on_consensus_paths_judged_for_confinement"] = nConf

	// entities of different modules never alias: every keeper works on its own module's store key
	persistentStores(c)
	// what is read for one entity is its stored record alone: no decode into a variable that still holds the previous one
	decodeFresh(c, ir.Modules...)
	streamParsers(c, builders)
	r.Floor("collectors of stored entities judged for the order of their list", listingOrder(c), 5)
}

func kindsEqual(a, b []Seg) bool {
	if len(a) != len(b) {
		return false
	}
	for i := range a {
		if a[i].Kind != b[i].Kind {
			return false
		}
		if a[i].Kind == "Const" && a[i].Arg != b[i].Arg {
			return false
		}
	}
	return true
}

func bigEndian(c *Ctx, f *ssa.Function, shape []Seg) {
	for _, s := range shape {
		switch s.Kind {
		case "LE64", "LE32", "VAR":
			c.R.Bad("A11.big-endian", fn(f)+"|"+s.Kind, c.W.Pos(f.Pos()), "integers in keys are fixed-width big-endian so byte order equals numeric order", "segment "+s.String())
		case "BE64":
			c.R.OK("A11.big-endian", fn(f)+"|"+s.Arg, c.W.Pos(f.Pos()), "integer key segment is big-endian 64-bit")
		default:
			if strings.HasPrefix(s.Kind, "ENC:") {
				c.R.Undecided("A11.big-endian", fn(f)+"|"+s.Kind, c.W.Pos(f.Pos()), "integer encoding is recognised", s.String())
			}
		}
	}
}

// ---------------------------------------------------------------------------------------
// parser / builder agreement for stream keys

type lin struct {
	c int
	s map[string]int
}

func (l lin) String() string {
	var ks []string
	for k, n := range l.s {
		if n != 0 {
			ks = append(ks, fmt.Sprintf("%d*%s", n, k))
		}
	}
	sort.Strings(ks)
	return fmt.Sprintf("%d+%v", l.c, ks)
}

func addLin(a, b lin) lin {
	out := lin{c: a.c + b.c, s: map[string]int{}}
	for k, v := range a.s {
		out.s[k] += v
	}
	for k, v := range b.s {
		out.s[k] += v
	}
	return out
}

func constLin(n int) lin { return lin{c: n, s: map[string]int{}} }

// evalLin evaluates an index expression of a parser symbolically. Length bytes become
// symbols named by the (symbolic) offset they are read from.
func evalLin(e *ir.Expr, keyParam string) (lin, error) {
	switch e.Op {
	case "const":
		var n int
		if _, err := fmt.Sscan(e.Name, &n); err != nil {
			return lin{}, fmt.Errorf("non-integer constant %s", e.Name)
		}
		return constLin(n), nil
	case "conv":
		return evalLin(e.Args[0], keyParam)
	case "call":
		// len(<section prefix variable>): the prefix is one byte (as layoutExtents assumes)
		if e.Name == "builtin:len" && len(e.Args) == 1 && e.Args[0].Op == "global" {
			return constLin(1), nil
		}
	case "bin":
		// a length byte read off the key must be widened before it is added to anything: in byte arithmetic 1+len wraps
		// to 0 for a 255-byte address (and the next segment is then read from the wrong place)
		for _, a := range e.Args {
			if a.Op == "elem" {
				return lin{}, fmt.Errorf("offset arithmetic on a length byte in byte width (%s): wraps for a 255-byte segment", e.String())
			}
		}
		a, err := evalLin(e.Args[0], keyParam)
		if err != nil {
			return lin{}, err
		}
		b, err := evalLin(e.Args[1], keyParam)
		if err != nil {
			return lin{}, err
		}
		switch e.Name {
		case "+":
			return addLin(a, b), nil
		case "-":
			nb := lin{c: -b.c, s: map[string]int{}}
			for k, v := range b.s {
				nb.s[k] = -v
			}
			return addLin(a, nb), nil
		}
		return lin{}, fmt.Errorf("operator %s", e.Name)
	case "elem":
		// elem(X, i): byte i of X where X is key or a parsed sub-slice
		base, off, err := sliceOf(e.Args[0], keyParam)
		if err != nil {
			return lin{}, err
		}
		_ = base
		i, err := evalLin(e.Args[1], keyParam)
		if err != nil {
			return lin{}, err
		}
		at := addLin(off, i)
		return lin{c: 0, s: map[string]int{"byte@" + at.String(): 1}}, nil
	case "res":
		if e.Name == "1" && e.Args[0].Op == "call" && strings.HasSuffix(e.Args[0].Name, "types.ParseLengthPrefixedBytes") {
			st, ln, err := parseArgs(e.Args[0], keyParam)
			if err != nil {
				return lin{}, err
			}
			return addLin(addLin(st, ln), constLin(-1)), nil
		}
	}
	return lin{}, fmt.Errorf("uninterpreted index %s", e.String())
}

func parseArgs(call *ir.Expr, keyParam string) (lin, lin, error) {
	if len(call.Args) != 3 || call.Args[0].Op != "param" || call.Args[0].Name != keyParam {
		return lin{}, lin{}, fmt.Errorf("parse call not on the key parameter: %s", call.String())
	}
	st, err := evalLin(call.Args[1], keyParam)
	if err != nil {
		return lin{}, lin{}, err
	}
	ln, err := evalLin(call.Args[2], keyParam)
	if err != nil {
		return lin{}, lin{}, err
	}
	return st, ln, nil
}

// sliceOf returns the offset (within key) at which a byte-slice expression starts.
func sliceOf(e *ir.Expr, keyParam string) (string, lin, error) {
	switch e.Op {
	case "param":
		if e.Name == keyParam {
			return "key", constLin(0), nil
		}
	case "res":
		if e.Name == "0" && e.Args[0].Op == "call" && strings.HasSuffix(e.Args[0].Name, "types.ParseLengthPrefixedBytes") {
			st, _, err := parseArgs(e.Args[0], keyParam)
			return "key", st, err
		}
	case "conv":
		return sliceOf(e.Args[0], keyParam)
	case "slice":
		if len(e.Args) == 4 {
			b, off, err := sliceOf(e.Args[0], keyParam)
			if err != nil {
				return "", lin{}, err
			}
			if e.Args[1].Op == "const" && e.Args[1].Name == "_" {
				return b, off, nil
			}
			lo, err := evalLin(e.Args[1], keyParam)
			if err != nil {
				return "", lin{}, err
			}
			return b, addLin(off, lo), nil
		}
	}
	return "", lin{}, fmt.Errorf("uninterpreted slice %s", e.String())
}

// extent returns (start, length) of a returned byte-slice expression.
func extent(e *ir.Expr, keyParam string) (lin, lin, error) {
	switch e.Op {
	case "conv":
		return extent(e.Args[0], keyParam)
	case "res":
		if e.Name == "0" && e.Args[0].Op == "call" && strings.HasSuffix(e.Args[0].Name, "types.ParseLengthPrefixedBytes") {
			return parseArgs(e.Args[0], keyParam)
		}
	case "slice":
		if len(e.Args) == 4 && !(e.Args[0].Op == "param" && e.Args[0].Name == keyParam) {
			// a slice of a slice (hand-written cursor parsing: bz[1:][:n], rest[1+n:]): start = start of the inner slice + low;
			// length = high - low when a high bound is given (otherwise what is left of the inner slice, which must then
			// have a known length)
			_, off, err := sliceOf(e.Args[0], keyParam)
			if err != nil {
				return lin{}, lin{}, err
			}
			lo := constLin(0)
			if !(e.Args[1].Op == "const" && e.Args[1].Name == "_") {
				if lo, err = evalLin(e.Args[1], keyParam); err != nil {
					return lin{}, lin{}, err
				}
			}
			if e.Args[2].Op == "const" && e.Args[2].Name == "_" {
				_, iln, err := extent(e.Args[0], keyParam)
				if err != nil {
					return lin{}, lin{}, fmt.Errorf("open-ended slice %s", e.String())
				}
				neg := lin{c: -lo.c, s: map[string]int{}}
				for k, v := range lo.s {
					neg.s[k] = -v
				}
				return addLin(off, lo), addLin(iln, neg), nil
			}
			hi, err := evalLin(e.Args[2], keyParam)
			if err != nil {
				return lin{}, lin{}, err
			}
			neg := lin{c: -lo.c, s: map[string]int{}}
			for k, v := range lo.s {
				neg.s[k] = -v
			}
			return addLin(off, lo), addLin(hi, neg), nil
		}
		if len(e.Args) == 4 && e.Args[0].Op == "param" && e.Args[0].Name == keyParam {
			lo, err := evalLin(e.Args[1], keyParam)
			if err != nil {
				return lin{}, lin{}, err
			}
			hi, err := evalLin(e.Args[2], keyParam)
			if err != nil {
				return lin{}, lin{}, err
			}
			neg := lin{c: -lo.c, s: map[string]int{}}
			for k, v := range lo.s {
				neg.s[k] = -v
			}
			return lo, addLin(hi, neg), nil
		}
	}
	return lin{}, lin{}, fmt.Errorf("uninterpreted result %s", e.String())
}

// layoutExtents computes, for a segment list, the (start,len) of each LenPrefixed payload.
func layoutExtents(shape []Seg, constLen func(string) int) ([][2]lin, []string) {
	off := constLin(0)
	var out [][2]lin
	var args []string
	for _, s := range shape {
		switch s.Kind {
		case "Const":
			off = addLin(off, constLin(constLen(s.Arg)))
		case "BE64":
			off = addLin(off, constLin(8))
		case "LenPrefixed":
			sym := lin{c: 0, s: map[string]int{"byte@" + off.String(): 1}}
			start := addLin(off, constLin(1))
			out = append(out, [2]lin{start, sym})
			args = append(args, s.Arg)
			off = addLin(start, sym)
		}
	}
	return out, args
}

func streamParsers(c *Ctx, builders map[string][]builderInfo) {
	w, r := c.W, c.R
	const sec = "x/stream/types.StreamKeyPrefix"
	var full []Seg
	for _, b := range builders[sec] {
		if len(b.Shape) > len(full) {
			full = b.Shape
		}
	}
	if len(full) != 3 {
		r.Undecided("A11.parser", "stream-layout", "", "stream key layout is Const·LenPrefixed·LenPrefixed", "layout "+shapeStr(full))
		return
	}
	constLen := func(string) int { return 1 }
	want, roles := layoutExtents(full, constLen)
	if len(want) != 2 {
		r.Bad("A11.parser", "stream-layout", "", "stream key layout has two length-prefixed address segments", "layout "+shapeStr(full))
		return
	}
	// full-key parser
	np := 0
	storeKeyParsers := map[*ssa.Function]bool{} // two-address parsers of keys whose section prefix a prefix store has stripped
	for _, f := range w.PkgFuncs("x/stream/types") {
		if w.IsGenerated(f) || f.Parent() != nil || len(f.Params) != 1 || f.Params[0].Type().String() != "[]byte" {
			continue
		}
		res := f.Signature.Results()
		allAddr := res.Len() > 0
		for i := 0; i < res.Len(); i++ {
			if !strings.HasSuffix(res.At(i).Type().String(), "types.AccAddress") {
				allAddr = false
			}
		}
		if !allAddr {
			continue
		}
		np++
		sum := w.Expand(w.Summary(f), 6)
		key := f.Params[0].Name()
		switch res.Len() {
		case 2:
			// a two-address parser reads either a full key (section prefix first) or a key as seen through a store prefixed
			// with the section prefix (the prefix already stripped): whichever layout its first result fits decides, and
			// its call sites are then held to that layout (A11.reprefix)
			stripped, _ := layoutExtents(full[1:], constLen)
			wantK := want
			if st0, ln0, err := extent(sum.Args[0], key); err == nil && len(stripped) == 2 && st0.String() == stripped[0][0].String() && ln0.String() == stripped[0][1].String() {
				wantK = stripped
				storeKeyParsers[f] = true
			}
			for i := 0; i < 2; i++ {
				st, ln, err := extent(sum.Args[i], key)
				if err != nil {
					parserErr(c, fmt.Sprintf("%s#%d", fn(f), i), w.Pos(f.Pos()), err)
					continue
				}
				ok := st.String() == wantK[i][0].String() && ln.String() == wantK[i][1].String()
				r.Require(ok, "A11.parser", fmt.Sprintf("%s#%d", fn(f), i), w.Pos(f.Pos()),
					fmt.Sprintf("result %d of the stream-key parser is the payload of builder segment %d (%s)", i, i+1, roles[i]),
					fmt.Sprintf("reads [%s,+%s), builder writes [%s,+%s)", st, ln, wantK[i][0], wantK[i][1]))
			}
		case 1:
			// parser of a key whose section prefix and first (receiver) segment were stripped by a prefix store
			rest, _ := layoutExtents(full[2:], constLen)
			st, ln, err := extent(sum.Args[0], key)
			if err != nil {
				parserErr(c, fn(f), w.Pos(f.Pos()), err)
				continue
			}
			ok := len(rest) == 1 && st.String() == rest[0][0].String() && ln.String() == rest[0][1].String()
			r.Require(ok, "A11.parser", fn(f), w.Pos(f.Pos()), "single-address parser reads the payload of the remaining length-prefixed segment",
				fmt.Sprintf("reads [%s,+%s)", st, ln))
		}
	}
	r.Floor("stream key parsers", np, 2)

	// call sites of the parsers: the argument layout must match what the parser expects
	for _, f := range w.Funcs {
		if w.IsGenerated(f) || ir.IsFixture(f) || ir.ModuleOf(f) != "stream" || strings.Contains(fn(f), "/simulation") {
			continue
		}
		for _, b := range f.Blocks {
			for _, in := range b.Instrs {
				call, ok := in.(*ssa.Call)
				if !ok {
					continue
				}
				sc := call.Common().StaticCallee()
				if sc == nil {
					continue
				}
				if storeKeyParsers[sc] {
					// used on the key of a store prefixed with the section prefix alone, or on a full key with that prefix sliced off
					arg := w.Expand(w.ExprOf(call.Common().Args[0]), 4)
					good := closureIteratesShape(c, f, full[:1])
					if !good && arg.Op == "slice" && len(arg.Args) == 4 && arg.Args[1].Op == "call" && arg.Args[1].Name == "builtin:len" && len(arg.Args[1].Args) == 1 && arg.Args[1].Args[0].Op == "global" && arg.Args[1].Args[0].Name == sec {
						good = true // key[len(prefix):] of a full key (whose own origin the full-key parser's call sites answer for)
					}
					if !good {
						good = viaCallers(c, f, 0, func(g *ssa.Function) bool { return closureIteratesShape(c, g, full[:1]) })
					}
					r.Require(good, "A11.reprefix", fn(f)+"|"+sc.Name(), pos(c, in), "the store-key parser is used only on keys of a store prefixed by the section prefix alone (or on a full key with that prefix sliced off)", arg.String())
					continue
				}
				switch fn(sc) {
				case "x/stream/types.AddressesFromStreamKey":
					arg := w.Expand(w.ExprOf(call.Common().Args[0]), 4)
					// either a full key from a prefix iterator over the section, or append(SectionPrefix, strippedKey)
					good := false
					detail := arg.String()
					if arg.Op == "call" && arg.Name == "builtin:append" && len(arg.Args) == 2 && arg.Args[0].Op == "global" {
						// the stripped key must come from a store prefixed with the same variable
						good = arg.Args[0].Name == sec && (closureIteratesPrefix(c, f, sec) || boundUsersIterateShape(c, f, in, full[:1]))
						detail = "re-prefixed with " + arg.Args[0].Name
					} else if arg.Op == "call" && strings.HasSuffix(arg.Name, ".Key") {
						good = iteratorOverSection(c, f, sec)
					}
					r.Require(good, "A11.reprefix", fn(f)+"|AddressesFromStreamKey", pos(c, in), "the full-key parser receives a complete stream key (iterator key of the section, or the section prefix re-attached to a prefix-store key)", detail)
				case "x/stream/types.FirstAddressFromStreamStoreKey":
					good := closureIteratesShape(c, f, full[:2]) || boundUsersIterateShape(c, f, in, full[:2])
					r.Require(good, "A11.reprefix", fn(f)+"|FirstAddressFromStreamStoreKey", pos(c, in), "the single-address parser is used only on keys of a store prefixed by Const·LenPrefixed(receiver)", "prefix store of the enclosing query has another layout")
				}
			}
		}
	}
}

// viaCallers: f is not itself a pagination callback but a helper the callbacks share: the question is
// answered at every function that calls it (at least one; all must agree).
func viaCallers(c *Ctx, f *ssa.Function, depth int, q func(*ssa.Function) bool) bool {
	if depth > 3 {
		return false
	}
	n := 0
	for _, ed := range c.W.Callers(f) {
		if c.W.IsGenerated(ed.From) || ir.IsFixture(ed.From) {
			continue
		}
		n++
		if !q(ed.From) {
			return false
		}
	}
	return n > 0
}

// closureIteratesPrefix: f is a closure whose parent builds prefix.NewStore(_, <section var>).
func closureIteratesPrefix(c *Ctx, f *ssa.Function, sec string) bool {
	return closureIteratesPrefixD(c, f, sec, 0)
}

func closureIteratesPrefixD(c *Ctx, f *ssa.Function, sec string, depth int) bool {
	p := f.Parent()
	if p == nil {
		if makers := boundValueMakers(c, f); len(makers) > 0 {
			for _, mk := range makers {
				ok := false
				for _, e := range prefixStores(c, mk) {
					if e.Op == "global" && e.Name == sec {
						ok = true
					}
				}
				if !ok {
					return false
				}
			}
			return true
		}
		return viaCallers(c, f, depth, func(g *ssa.Function) bool { return closureIteratesPrefixD(c, g, sec, depth+1) })
	}
	for _, e := range prefixStores(c, p) {
		if e.Op == "global" && e.Name == sec {
			return true
		}
	}
	return false
}

func closureIteratesShape(c *Ctx, f *ssa.Function, want []Seg) bool {
	return closureIteratesShapeD(c, f, want, 0)
}

func closureIteratesShapeD(c *Ctx, f *ssa.Function, want []Seg, depth int) bool {
	p := f.Parent()
	if p == nil {
		// a method handed over as a method value (`lister.resultFromKey`): the functions that take that value stand
		// where the parent of a closure literal stands
		if makers := boundValueMakers(c, f); len(makers) > 0 {
			for _, mk := range makers {
				ok := false
				for _, e := range prefixStores(c, mk) {
					s, err := keyShape(c, c.W.Expand(e, 6), 0)
					if err == nil && kindsEqual(s, want) {
						ok = true
					}
				}
				if !ok {
					return false
				}
			}
			return true
		}
		return viaCallers(c, f, depth, func(g *ssa.Function) bool { return closureIteratesShapeD(c, g, want, depth+1) })
	}
	for _, e := range prefixStores(c, p) {
		s, err := keyShape(c, c.W.Expand(e, 6), 0)
		if err == nil && kindsEqual(s, want) {
			return true
		}
	}
	return false
}

func prefixStores(c *Ctx, p *ssa.Function) []*ir.Expr {
	// prefix.NewStore(_, P) built in p, or in a helper p calls to obtain its store (P in p's terms)
	var out []*ir.Expr
	root := c.W.FlatRoot(p)
	seen := map[ssa.Instruction]bool{}
	c.W.FlatWalk(root, nil, nil, func(fp ir.FPos) bool {
		if call, ok := fp.In.(*ssa.Call); ok && !seen[fp.In] {
			if sc := call.Common().StaticCallee(); sc != nil && sc.Name() == "NewStore" && sc.Pkg != nil && strings.HasSuffix(sc.Pkg.Pkg.Path(), "store/prefix") {
				seen[fp.In] = true
				out = append(out, fp.Ctx.Apply(c.W.ExprOf(call.Common().Args[1])))
			}
		}
		return true
	})
	return out
}

func iteratorOverSection(c *Ctx, f *ssa.Function, sec string) bool {
	for _, e := range c.W.EffectsOf(f) {
		if e.Kind == "StoreIter" && e.Section == sec {
			return true
		}
	}
	return false
}

// parserErr reports a parser result that could not be read as a sub-slice of the key: offset arithmetic done in the width
// of the length byte is a violation in its own right (it wraps for a 255-byte segment); anything else is undecided.
func parserErr(c *Ctx, key, at string, err error) {
	if strings.Contains(err.Error(), "in byte width") {
		c.R.Bad("A11.parser", key+"|width", at, "a key parser widens the length byte before doing offset arithmetic with it (1+len in byte arithmetic wraps to 0 for a 255-byte address, the SDK's maximum)", err.Error())
		return
	}
	c.R.Undecided("A11.parser", key, at, "parser result is an interpretable sub-slice of the key", err.Error())
}

// streamKeyBuilders: the key builders of the stream section with their layouts (for properties that need the stream-key
// parser rule without the rest of C18).
func streamKeyBuilders(c *Ctx) map[string][]builderInfo {
	w := c.W
	out := map[string][]builderInfo{}
	for _, f := range w.PkgFuncs("x/stream/types") {
		if w.IsGenerated(f) || f.Parent() != nil || f.Signature.Recv() != nil || f.Signature.Results().Len() != 1 || f.Signature.Results().At(0).Type().String() != "[]byte" {
			continue
		}
		sum := w.Expand(w.Summary(f), 6)
		if sum.Op == "tuple" {
			sum = sum.Args[0]
		}
		sec := w.SectionOfKey(sum)
		if sec == "?" {
			continue
		}
		if shape, err := keyShape(c, sum, 0); err == nil {
			out[sec] = append(out[sec], builderInfo{f, shape})
		}
	}
	return out
}

// boundValueMakers: the functions in which method f is turned into a function value (obj.f without a call).
func boundValueMakers(c *Ctx, f *ssa.Function) []*ssa.Function {
	var out []*ssa.Function
	seen := map[*ssa.Function]bool{}
	for _, g := range c.W.Funcs {
		for _, b := range g.Blocks {
			for _, in := range b.Instrs {
				mc, ok := in.(*ssa.MakeClosure)
				if !ok {
					continue
				}
				wfn, ok := mc.Fn.(*ssa.Function)
				if ok && ir.BoundTarget(wfn) == f && !seen[g] {
					seen[g] = true
					out = append(out, g)
				}
			}
		}
	}
	sortFuncs(out)
	return out
}

// boundUsersIterateShape: the parser call `site` stands in a function reached from methods that are handed on as bound
// method values (a collector with a mode field: `if c.receiver != nil { single-address parser } else { full-key parser }`).
// Each function that takes such a value is judged on its own: the callback is walked with the collector bound to what it
// held where the value was taken (an unset mode field is nil, a parsed address is not), and only the takers for which the
// site can be reached must page a store prefixed in the wanted layout. At least one taker must reach it.
func boundUsersIterateShape(c *Ctx, f *ssa.Function, site ssa.Instruction, want []Seg) bool {
	w := c.W
	users := 0
	for _, g := range w.Funcs {
		if w.IsGenerated(g) {
			continue
		}
		for _, b := range g.Blocks {
			for _, in := range b.Instrs {
				mc, ok := in.(*ssa.MakeClosure)
				if !ok {
					continue
				}
				wfn, _ := mc.Fn.(*ssa.Function)
				method := ir.BoundTarget(wfn)
				if method == nil {
					continue
				}
				if _, reaches := w.Reachable([]*ssa.Function{method})[f]; !reaches && method != f {
					continue
				}
				root := w.FlatRootBound(mc, method)
				if w.FlatReaches(root, nil, nil, func(p ir.FPos) bool { return p.In == site }) == nil {
					continue // this taker's collector never takes the branch the parser stands on
				}
				users++
				ok2 := false
				for _, e := range prefixStores(c, g) {
					s, err := keyShape(c, w.Expand(e, 6), 0)
					if err == nil && kindsEqual(s, want) {
						ok2 = true
					}
				}
				if !ok2 {
					return false
				}
			}
		}
	}
	return users > 0
}

// listingOrder is rule A11.listing-order: a function that collects the entities of a section into a list hands them back in
// ascending key order. The store iterates in key order and the keys are big-endian (A11.big-endian), so the order of the
// list is decided by two things the collector chooses: the direction it iterates in and the end of the list it adds to. A
// forward walk that appends and a reverse walk that prepends (the capped exports: newest first, put in front) both give an
// ascending list; the two mixed forms give a descending one — whose first element genesis export then records as the
// oldest retained record, so that after an import the pruning deletes the newest record instead of the oldest.
// Returns the number of collectors judged.
func listingOrder(c *Ctx) int {
	w, r := c.W, c.R
	n := 0
	iterDir := func(g *ssa.Function) string {
		fwd, rev := false, false
		for h := range w.Reachable([]*ssa.Function{g}) {
			for _, e := range w.EffectsOf(h) {
				if e.Kind != "StoreIter" {
					continue
				}
				if strings.Contains(e.Method, "Reverse") {
					rev = true
				} else {
					fwd = true
				}
			}
		}
		switch {
		case fwd && !rev:
			return "forward"
		case rev && !fwd:
			return "reverse"
		}
		return ""
	}
	// how a stored slice value extends the list `isList` recognises: "append", "prepend" or ""
	var addMode func(v ssa.Value, isList func(ssa.Value) bool) string
	addMode = func(v ssa.Value, isList func(ssa.Value) bool) string {
		call, ok := v.(*ssa.Call)
		if !ok {
			return ""
		}
		args := call.Common().Args
		if b, ok := call.Common().Value.(*ssa.Builtin); ok && b.Name() == "append" && len(args) == 2 {
			switch {
			case isList(args[0]):
				return "append"
			case isList(args[1]) || resliceOf(args[1], isList):
				return "prepend"
			}
			return ""
		}
		h := call.Common().StaticCallee()
		if h == nil || len(h.Blocks) == 0 || len(h.Params) != 2 || len(args) != 2 || !isList(args[0]) {
			return ""
		}
		// a helper (list, element) -> list
		copies, front := false, false
		back := false
		for _, b := range h.Blocks {
			for _, in := range b.Instrs {
				switch x := in.(type) {
				case *ssa.Call:
					if bi, ok := x.Common().Value.(*ssa.Builtin); ok && bi.Name() == "copy" {
						copies = true
					}
				case *ssa.Store:
					if ia, ok := x.Addr.(*ssa.IndexAddr); ok && x.Val == ssa.Value(h.Params[1]) {
						if cst, ok := ia.Index.(*ssa.Const); ok && cst.Value != nil && cst.Value.String() == "0" {
							front = true
						}
					}
				case *ssa.Return:
					if len(x.Results) == 1 {
						if m := addMode(x.Results[0], func(y ssa.Value) bool { return y == ssa.Value(h.Params[0]) }); m == "append" {
							back = true
						} else if m == "prepend" {
							front, copies = true, true
						}
					}
				}
			}
		}
		switch {
		case copies && front:
			return "prepend" // grown by one, shifted up, the element stored at index 0
		case back && !front && !copies:
			return "append"
		}
		return ""
	}
	judge := func(f *ssa.Function, at ssa.Instruction, dir, mode string) {
		n++
		asc := dir == "forward" && mode == "append" || dir == "reverse" && mode == "prepend"
		if os.Getenv("MCDEBUG") == "order" {
			fmt.Fprintln(os.Stderr, "order", fn(f), dir, mode)
		}
		r.Require(asc, "A11.listing-order", fn(f), pos(c, at),
			"a collected list is in ascending key order: a forward walk appends, a reverse walk (the capped exports) puts each element in front",
			"the store is walked "+dir+" and each element is added by "+mode)
	}
	for _, f := range w.Funcs {
		if w.IsGenerated(f) || ir.IsFixture(f) || ir.ModuleOf(f) == "" || f.Parent() != nil || strings.Contains(fn(f), "/simulation") || strings.Contains(fn(f), "/client") {
			continue
		}
		for _, b := range f.Blocks {
			for _, in := range b.Instrs {
				call, ok := in.(ssa.CallInstruction)
				if !ok {
					continue
				}
				g := call.Common().StaticCallee()
				if g == nil || len(g.Blocks) == 0 {
					continue
				}
				for _, a := range call.Common().Args {
					mc, ok := stripIface(a).(*ssa.MakeClosure)
					if !ok {
						continue
					}
					cb, ok := mc.Fn.(*ssa.Function)
					if !ok || cb.Parent() != f {
						continue
					}
					dir := iterDir(g)
					if dir == "" {
						continue
					}
					for _, cbb := range cb.Blocks {
						for _, ci := range cbb.Instrs {
							st, ok := ci.(*ssa.Store)
							if !ok {
								continue
							}
							fv, ok := st.Addr.(*ssa.FreeVar)
							if !ok {
								continue
							}
							if _, isSlice := ptrElem(fv.Type()).Underlying().(*types.Slice); !isSlice {
								continue
							}
							isList := func(v ssa.Value) bool {
								u, ok := v.(*ssa.UnOp)
								return ok && u.X == ssa.Value(fv)
							}
							if mode := addMode(st.Val, isList); mode != "" {
								// what the enclosing function does with the list afterwards: turned round in place (then a reverse walk that
								// appends is ascending after all), or sorted (then the walk does not decide the order)
								var listVar ssa.Value
								for k, cfv := range cb.FreeVars {
									if cfv == fv && k < len(mc.Bindings) {
										listVar = mc.Bindings[k]
									}
								}
								switch laterReordered(f, listVar) {
								case "sorted":
									continue
								case "reversed":
									if mode == "append" {
										mode = "prepend"
									} else {
										mode = "append"
									}
								}
								judge(f, ci, dir, mode)
							}
						}
					}
				}
			}
		}
		// a loop over an iterator opened in the function itself
		dir := ""
		for _, e := range w.EffectsOf(f) {
			if e.Kind == "StoreIter" && e.Site.Parent() == f {
				d := "forward"
				if strings.Contains(e.Method, "Reverse") {
					d = "reverse"
				}
				if dir != "" && dir != d {
					dir = "mixed"
				} else if dir == "" {
					dir = d
				}
			}
		}
		if dir == "" || dir == "mixed" {
			continue
		}
		for _, b := range f.Blocks {
			for _, in := range b.Instrs {
				switch x := in.(type) {
				case *ssa.Phi:
					if _, isSlice := x.Type().Underlying().(*types.Slice); !isSlice || loopBody(b) == nil {
						continue
					}
					for _, e := range x.Edges {
						if mode := addMode(e, func(v ssa.Value) bool { return v == ssa.Value(x) }); mode != "" {
							judge(f, x, dir, mode)
						}
					}
				case *ssa.Store:
					al, ok := x.Addr.(*ssa.Alloc)
					if !ok {
						continue
					}
					if _, isSlice := ptrElem(al.Type()).Underlying().(*types.Slice); !isSlice || ir.EnclosingLoopHeader(f, x) == nil {
						continue
					}
					isList := func(v ssa.Value) bool {
						u, ok := v.(*ssa.UnOp)
						return ok && u.X == ssa.Value(al)
					}
					if mode := addMode(x.Val, isList); mode != "" {
						judge(f, x, dir, mode)
					}
				}
			}
		}
	}
	return n
}

// resliceOf: v is a re-slicing `x[:]`/`x[a:b]` of a value isList accepts.
func resliceOf(v ssa.Value, isList func(ssa.Value) bool) bool {
	if s, ok := v.(*ssa.Slice); ok {
		return isList(s.X)
	}
	return false
}

// laterReordered: what f does to the list kept in the variable v after collecting it: "reversed" (slices.Reverse, or a loop
// that swaps the elements at two indices of it), "sorted" (handed to package sort / slices.Sort*), or "".
func laterReordered(f *ssa.Function, v ssa.Value) string {
	if v == nil {
		return ""
	}
	isList := func(x ssa.Value) bool {
		u, ok := x.(*ssa.UnOp)
		return ok && u.X == v
	}
	res := ""
	for _, b := range f.Blocks {
		swaps := 0
		for _, in := range b.Instrs {
			switch x := in.(type) {
			case *ssa.Call:
				sc := x.Common().StaticCallee()
				if sc == nil || sc.Pkg == nil {
					continue
				}
				uses := false
				for _, a := range x.Common().Args {
					if isList(a) || isList(stripIface(a)) {
						uses = true
					}
					if mi, ok := a.(*ssa.MakeInterface); ok && isList(mi.X) {
						uses = true
					}
				}
				if !uses {
					continue
				}
				switch sc.Pkg.Pkg.Path() {
				case "sort":
					res = "sorted"
				case "slices":
					if sc.Name() == "Reverse" {
						if res == "" {
							res = "reversed"
						}
					} else if strings.HasPrefix(sc.Name(), "Sort") {
						res = "sorted"
					}
				}
			case *ssa.Store:
				ia, ok := x.Addr.(*ssa.IndexAddr)
				if !ok || !isList(ia.X) {
					continue
				}
				if ld, ok := x.Val.(*ssa.UnOp); ok {
					if ia2, ok := ld.X.(*ssa.IndexAddr); ok && isList(ia2.X) && ia2.Index != ia.Index {
						swaps++
					}
				}
			}
		}
		if swaps >= 2 && loopBody(b) != nil || swaps >= 2 && ir.EnclosingLoopHeader(f, b.Instrs[0]) != nil {
			if res == "" {
				res = "reversed"
			}
		}
	}
	return res
}
