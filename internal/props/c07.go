package props

import (
	"fmt"
	"go/token"
	"go/types"
	"os"
	"strings"

	"golang.org/x/tools/go/ssa"

	"mcverif/internal/ir"
)

func init() {
	Registry["C07"] = C07
	Registry["C08"] = C08
	Registry["C09"] = C09
}

// recMod describes the symmetric WRKChain / BEACON modules (the specification tables).
type recMod struct {
	M                                 string
	SecReg, SecRec, SecLimit, SecHigh string
	Register, Record, Purchase        string            // service methods
	IDField                           string            // message field naming the registration
	RegID                             string            // id field of the registration struct
	Cursor                            string            // Lastblock / LastTimestampId
	Count, Lowest                     string            // NumBlocks/LowestHeight, NumInState/FirstIdInState
	RecFields                         map[string]string // stored record field -> message field ("@time" = block time, "@cursor+1")
	RegFields                         map[string]string // stored registration field -> message field at registration
	RecordQuery, StorageQuery         string
	RecKeyMsg                         []string // message fields forming the record key ("@cursor+1" allowed)
	SizeFields                        []string
}

var recMods = []recMod{
	{
		M: "wrkchain", SecReg: "x/wrkchain/types.RegisteredWrkChainPrefix", SecRec: "x/wrkchain/types.RecordedWrkChainBlockHashPrefix",
		SecLimit: "x/wrkchain/types.WrkChainStorageLimitPrefix", SecHigh: "x/wrkchain/types.HighestWrkChainIDKey",
		Register: "RegisterWrkChain", Record: "RecordWrkChainBlock", Purchase: "PurchaseWrkChainStateStorage",
		IDField: "WrkchainId", RegID: "WrkchainId", Cursor: "Lastblock", Count: "NumBlocks", Lowest: "LowestHeight",
		RecFields:   map[string]string{"Height": "Height", "Blockhash": "BlockHash", "Parenthash": "ParentHash", "Hash1": "Hash1", "Hash2": "Hash2", "Hash3": "Hash3", "SubTime": "@time"},
		RegFields:   map[string]string{"Moniker": "Moniker", "Name": "Name", "Genesis": "GenesisHash", "Type": "BaseType", "Owner": "@owner", "RegTime": "@time", "WrkchainId": "@newid", "Lastblock": "@zero", "NumBlocks": "@zero", "LowestHeight": "@zero"},
		RecordQuery: "WrkChainBlock", StorageQuery: "WrkChainStorage", RecKeyMsg: []string{"WrkchainId", "Height"},
		SizeFields: []string{"BlockHash", "ParentHash", "Hash1", "Hash2", "Hash3"},
	},
	{
		M: "beacon", SecReg: "x/beacon/types.RegisteredBeaconPrefix", SecRec: "x/beacon/types.RecordedBeaconTimestampPrefix",
		SecLimit: "x/beacon/types.BeaconStorageLimitPrefix", SecHigh: "x/beacon/types.HighestBeaconIDKey",
		Register: "RegisterBeacon", Record: "RecordBeaconTimestamp", Purchase: "PurchaseBeaconStateStorage",
		IDField: "BeaconId", RegID: "BeaconId", Cursor: "LastTimestampId", Count: "NumInState", Lowest: "FirstIdInState",
		RecFields:   map[string]string{"TimestampId": "@cursor+1", "SubmitTime": "SubmitTime", "Hash": "Hash"},
		RegFields:   map[string]string{"Moniker": "Moniker", "Name": "Name", "Owner": "@owner", "RegTime": "@time", "BeaconId": "@newid", "LastTimestampId": "@zero", "NumInState": "@zero", "FirstIdInState": "@zero"},
		RecordQuery: "BeaconTimestamp", StorageQuery: "BeaconStorage", RecKeyMsg: []string{"BeaconId", "@cursor+1"},
		SizeFields: []string{"Hash"},
	},
}

func secParams(m string) string { return "x/" + m + "/types.ParamsKey" }

func isModParam(c *Ctx, e *ir.Expr, m, field string) bool {
	_, ok := allStateField(c, stripConvE(e), secParams(m), field)
	return ok
}

// regField: e is <state:Registrations(key(msg.ID))>.field (all non-zero alternatives).
func regField(c *Ctx, rm recMod, e *ir.Expr, field string) bool {
	k, ok := allStateField(c, e, rm.SecReg, field)
	if !ok {
		return false
	}
	ka := keyArgs(k)
	return len(ka) == 1 && isRegID(c, rm, ka[0])
}

func isCursorPlus1(c *Ctx, rm recMod, e *ir.Expr) bool {
	e = stripConvE(e)
	return e != nil && e.Op == "bin" && e.Name == "+" && e.Args[1].Op == "const" && e.Args[1].Name == "1" && regField(c, rm, e.Args[0], rm.Cursor)
}

func isZeroConst(e *ir.Expr) bool {
	return e != nil && (e.Op == "const" && e.Name == "0" || e.Op == "zero")
}

func storeStructs(c *Ctx, h *ssa.Function, sec string) []Inst {
	out := instantiate(c, h, func(e ir.Effect) bool { return e.Kind == "StoreWrite" && e.Section == sec }, func(e ir.Effect) *ir.Expr { return marshalArg(c, e) })
	// a record that reaches the store through a helper's result (a plan worked out beforehand, say) is looked into
	for i := range out {
		if e := out[i].E; e != nil && e.Op != "struct" && e.Op != "ref" {
			if x := c.W.Expand(e, 4); x.Op == "struct" {
				out[i].E = x
			}
		}
	}
	return out
}

func storeKeys(c *Ctx, h *ssa.Function, kinds map[string]bool, sec string) []Inst {
	return instantiate(c, h, func(e ir.Effect) bool { return kinds[e.Kind] && e.Section == sec && e.Key != nil }, func(e ir.Effect) *ir.Expr { return e.Key })
}

func C07(c *Ctx) {
	w, r := c.W, c.R
	r.Explanation = "(A1) the record sections are written only from the record handler and genesis import, deleted only from the record handler (pruning); " +
		"(A2) every state-changing step of the record handler is guarded by: registration exists, signer equals the stored Owner of the registration named in the message, and (WRKChain) strictly msg.Height > stored Lastblock of that same registration; " +
		"(keys) the record is written under key (msg.id, msg.Height) resp. (msg.id, stored LastTimestampId+1) — the same id and height that were compared; (A3/A4) the cursor is advanced to exactly that height/id on every success path; " +
		"(A7) field fidelity of the stored record: each stored field originates from the like-named message field (block time for SubTime), and the point query reads through the same key layout with the request's id and height; " +
		"(A2) a rejecting length comparison exists for every hash field. Decides these structural necessary conditions on every path; the inductive claim 'all stored heights <= Lastblock' is not decided."
	r.Rules = []string{"A1.record-writers", "A2.record-guards", "A7.record-key", "A3.cursor-update", "A7.record-fields", "A7.point-query-key", "A2.size-checks", "A7.exported-cursor", "A12.decode-fresh", "A3.element-carry", "A6.persistent-store", "A11.listing-order", "A5.export-cap", "A7.import-fields", "A3.id-counter", "A7.exported-id-counter"}
	for _, m := range []string{"wrkchain", "beacon"} {
		r.Floor("loops of "+m+" on record, import and export paths judged for locals carried between elements", elementCarry(c, m, []string{"MSG", "INITGEN", "EXPORTGEN"}), 3)
	}
	r.Trusted = []string{"KVStore Set/Get semantics", "baseapp calls ValidateBasic before dispatch"}
	r.NotDecided = []string{"inductive invariant: every stored height <= Lastblock", "pruning order (C08)"}
	// the cursor survives an export/import cycle unchanged (otherwise old heights become writable again)
	exportCountersRule(c, "A7.exported-cursor", map[string]bool{"Lastblock": true, "LastTimestampId": true})
	// what a query or an export returns is the stored record alone: no decode into a variable that still holds another record
	// a record can be replaced by nobody: no other keeper writes into this module's key space
	persistentStores(c)
	// "until it is pruned by the retention limit": the export hands the records over oldest first (the import takes the first
	// as the oldest retained one, and pruning starts there)
	r.Floor("collectors of stored entities judged for the order of their list", listingOrder(c), 5)
	// ... the newest records are the ones exported, and what is exported is what is imported, field by field
	exportCaps(c)
	for _, m := range []string{"wrkchain", "beacon"} {
		importFields(c, m)
	}
	// a registration never takes over an id that is in use (its cursor would start again at the first record)
	for _, rm := range recMods {
		if h := handlerOf(c, rm.M, rm.Register); h != nil {
			idCounter(c, h, rm.SecReg, rm.SecHigh, "A3.id-counter", []string{rm.SecLimit})
		}
	}
	// ... nor after an export/import cycle: the exported starting id is the stored next-id counter
	exportGenesisArgs(c, "A7.exported-id-counter", true)
	decodeFresh(c, "wrkchain", "beacon")
	for _, rm := range recMods {
		isW := func(e ir.Effect) bool { return e.Kind == "StoreWrite" && e.Section == rm.SecRec }
		isD := func(e ir.Effect) bool { return e.Kind == "StoreDelete" && e.Section == rm.SecRec }
		n := whoMayReach(c, "A1.record-writers", "writes of "+rm.M+" records", isW, []string{"MSG:" + rm.M + "." + rm.Record, "INITGEN:" + rm.M})
		n += whoMayReach(c, "A1.record-writers", "deletes of "+rm.M+" records", isD, []string{"MSG:" + rm.M + "." + rm.Record})
		r.Floor("root/record-writer pairs of "+rm.M, n, 3)
		h := handlerOf(c, rm.M, rm.Record)
		if h == nil {
			r.Undecided("A2.record-guards", rm.M, "", "record handler found", "missing")
			continue
		}
		sites := mutatingSites(c, h, isStateMutation)
		r.Floor("mutating sites in "+rm.M+" record handler", len(sites), 1)
		exists := func(p ir.Pred) bool {
			if !p.Pol || p.E.Op != "call" || !strings.HasSuffix(p.E.Name, ".Has") || len(p.E.Args) != 2 {
				return false
			}
			k := p.E.Args[1]
			ka := keyArgs(k)
			return w.SectionOfKey(k) == rm.SecReg && len(ka) == 1 && isRegID(c, rm, ka[0])
		}
		strict := func(p ir.Pred) bool {
			return cmpIs(p, ">", func(x *ir.Expr) bool { return isMsgField(x, "Height") }, func(y *ir.Expr) bool { return regField(c, rm, y, rm.Cursor) })
		}
		for i, s := range sites {
			k := fmt.Sprintf("%s|site%d:%s", rm.M, i, siteName(c, s))
			r.Require(w.Guarded(h, s, ownerMatcher(c, rm.M, "Owner", rm.IDField), 3), "A2.record-guards", "owner|"+k, pos(c, s), "a record is accepted only from the stored Owner of the registration named in the message", "reachable without the owner check")
			r.Require(w.Guarded(h, s, exists, 3), "A2.record-guards", "registered|"+k, pos(c, s), "a record is accepted only for a registration that exists under msg."+rm.IDField, "reachable without the existence check")
			if rm.M == "wrkchain" {
				r.Require(w.Guarded(h, s, strict, 3), "A2.record-guards", "strictly-higher|"+k, pos(c, s), "a WRKChain record is accepted only when msg.Height > stored Lastblock of msg.WrkchainId (strict)", "reachable without the strict comparison")
			}
		}
		// key of the record write / delete
		for _, in := range storeKeys(c, h, map[string]bool{"StoreWrite": true}, rm.SecRec) {
			ka := keyArgs(in.E)
			ok := len(ka) == 2 && (isRegID(c, rm, ka[0]) || regField(c, rm, ka[0], rm.RegID))
			if ok {
				if rm.RecKeyMsg[1] == "@cursor+1" {
					ok = isCursorPlus1(c, rm, ka[1])
				} else {
					// (the height may have been carried along in a record worked out beforehand)
					ok = isMsgField(ka[1], rm.RecKeyMsg[1]) || isMsgFieldAll(w.Expand(ka[1], 4), rm.RecKeyMsg[1])
				}
			}
			r.Require(ok, "A7.record-key", rm.M+"|write", pos(c, in.Eff.Site), "the record is stored under key ("+strings.Join(rm.RecKeyMsg, ", ")+") of the message", "key "+in.E.String())
		}
		// stored record fields
		nrec := 0
		for _, in := range storeStructs(c, h, rm.SecRec) {
			nrec++
			st := in.E
			for f, src := range rm.RecFields {
				v := fieldOfStruct(st, f)
				ok := false
				d := "<unresolved: " + st.String() + ">"
				if v != nil {
					d = v.String()
					switch src {
					case "@time":
						ok = isBlockTime(v)
					case "@cursor+1":
						ok = isCursorPlus1(c, rm, v)
					case "SubmitTime":
						ok = submitTimeOK(c, h, v)
					default:
						ok = isMsgFieldAll(v, src)
					}
				}
				r.Require(ok, "A7.record-fields", rm.M+"."+f, pos(c, in.Eff.Site), "stored record field "+f+" originates from "+src, f+" = "+d)
			}
			if st.Op == "struct" {
				r.Require(len(st.Fields) == len(rm.RecFields), "A7.record-fields", rm.M+"|field-count", pos(c, in.Eff.Site), "every field of the record type has a specified origin", fmt.Sprintf("type has %d fields, table has %d", len(st.Fields), len(rm.RecFields)))
			}
		}
		r.Floor("record writes reachable from "+rm.M+" record handler", nrec, 1)
		// cursor update on the registration re-store
		nreg := 0
		for _, in := range storeStructs(c, h, rm.SecReg) {
			nreg++
			st := in.E
			cur := fieldOfStruct(st, rm.Cursor)
			ok := false
			d := "<unresolved>"
			if cur != nil {
				d = cur.String()
				if rm.M == "wrkchain" {
					ok = isMsgField(cur, "Height")
				} else {
					// LastTimestampId := old+1, skipped only through the tautological edge (old+1 > old)
					ok = true
					seen := false
					for _, a := range cur.Alts() {
						if isCursorPlus1(c, rm, a) {
							seen = true
						} else if !regField(c, rm, a, rm.Cursor) {
							ok = false
						}
					}
					ok = ok && seen
					if ok && len(cur.Alts()) > 1 {
						ok = false
						for f := range w.Reachable([]*ssa.Function{h}) {
							if ir.ModuleOf(f) == rm.M && tautologicalSkip(c, rm, f) {
								ok = true
							}
						}
					}
				}
			}
			r.Require(ok, "A3.cursor-update", rm.M+"|value", pos(c, in.Eff.Site), "the registration's "+rm.Cursor+" becomes the height/id just recorded", rm.Cursor+" = "+d)
			// key: same registration
			for _, up := range w.OriginsUpTo(in.Eff.Fn, in.Eff.Key, h, 8) {
				ka := keyArgs(up.E)
				okk := len(ka) == 1 && (isRegID(c, rm, ka[0]) || regField(c, rm, ka[0], rm.RegID))
				r.Require(okk, "A3.cursor-update", rm.M+"|key", pos(c, in.Eff.Site), "the registration re-stored is the one named in the message", "key "+up.E.String())
			}
		}
		r.Floor("registration writes reachable from "+rm.M+" record handler", nreg, 1)
		// every success path of the function that writes the record also re-stores the registration afterwards
		for _, e := range w.AllEffects(isW) {
			for f := range w.BackwardClosure([]*ssa.Function{e.Fn}) {
				if _, in := w.Reachable([]*ssa.Function{h})[f]; !in || f == h {
					continue
				}
				wr := callReaching(c, f, isW)
				rs := callReaching(c, f, func(x ir.Effect) bool { return x.Kind == "StoreWrite" && x.Section == rm.SecReg })
				for _, site := range findInstrs(f, wr) {
					if rs(site) {
						continue
					}
					bad := 0
					for _, ret := range w.SuccessReturns(f) {
						if ir.ReachesFrom(f, site.Block(), ir.InstrIndex(site)+1, ret, ir.Cut{Barrier: rs}) {
							bad++
						}
					}
					if len(findInstrs(f, rs)) > 0 {
						r.Require(bad == 0, "A3.cursor-update", rm.M+"|must|"+fn(f), pos(c, site), "after a record is written every successful path re-stores the registration (cursor and counters)", fmt.Sprintf("%d success return(s) skip it", bad))
					}
				}
			}
		}
		// point query key
		if q := queryOf(c, rm.M, rm.RecordQuery); q != nil {
			nq := 0
			for _, in := range storeKeys(c, q, map[string]bool{"StoreRead": true}, rm.SecRec) {
				nq++
				ka := keyArgs(in.E)
				ok := len(ka) == 2 && ka[0].Op == "field" && ka[0].Name == rm.IDField && ka[1].Op == "field" && len(ka[1].Args) == 1 && ka[1].Args[0].Op == "param"
				r.Require(ok, "A7.point-query-key", rm.M, pos(c, in.Eff.Site), "the point query reads key (req."+rm.IDField+", req.<height/id>) through the record key builder", "key "+in.E.String())
			}
			r.Floor("record reads reachable from "+rm.M+" point query", nq, 1)
		} else {
			r.Undecided("A7.point-query-key", rm.M, "", "point query found", "missing "+rm.RecordQuery)
		}
		sizeChecks(c, rm, h)
	}
}

// submitTimeOK: SubmitTime is msg.SubmitTime; any other alternative is only reachable when msg.SubmitTime == 0.
func submitTimeOK(c *Ctx, h *ssa.Function, v *ir.Expr) bool {
	seen := false
	for _, a := range v.Alts() {
		if isMsgField(a, "SubmitTime") {
			seen = true
			continue
		}
		// the wall-clock default: accepted here only because C01 proves it unreachable for valid messages
		if !a.Any(func(x *ir.Expr) bool {
			return x.Op == "call" && strings.HasPrefix(x.Name, "time.Now") || len(x.Args) == 0 && strings.HasSuffix(x.String(), "time.Now()")
		}) {
			return false
		}
	}
	return seen
}

// tautologicalSkip: in f the cursor store is skipped only via the false edge of (v+1 > v).
func tautologicalSkip(c *Ctx, rm recMod, f *ssa.Function) bool {
	// asked on the flat view of f, with every condition expressed in f's terms: `id > beacon.LastTimestampId`
	// inside a helper handed id = old+1 and the loaded registration is the same tautology as when written inline
	w := c.W
	found := false
	isTaut := func(e *ir.Expr) bool {
		if e == nil || e.Op != "bin" || len(e.Args) != 2 {
			return false
		}
		big, small := e.Args[0], e.Args[1]
		switch e.Name {
		case ">", ">=":
		case "<", "<=":
			big, small = small, big
		default:
			return false
		}
		// v+1 > v, or mirrored v < v+1 (also >= / <=: equally always true)
		return big.Op == "bin" && big.Name == "+" && len(big.Args) == 2 && big.Args[1].Op == "const" && big.Args[1].Name == "1" && big.Args[0].String() == small.String()
	}
	root := w.FlatRoot(f)
	w.FlatWalk(root, nil, nil, func(p ir.FPos) bool {
		if iff, ok := p.In.(*ssa.If); ok {
			e := w.ExprOf(iff.Cond)
			if p.Ctx != root {
				e = p.Ctx.Apply(e)
			}
			if isTaut(e) {
				found = true
				return false
			}
		}
		return true
	})
	return found
}

func queryOf(c *Ctx, m, name string) *ssa.Function {
	fs := c.W.Roots["QUERY:"+m+"."+name]
	if len(fs) == 1 {
		return fs[0]
	}
	return nil
}

func sizeChecks(c *Ctx, rm recMod, h *ssa.Function) {
	w, r := c.W, c.R
	mt := msgTypeOf(h)
	var vb *ssa.Function
	for _, f := range w.Roots["MSGIFACE:ValidateBasic"] {
		if ir.ModuleOf(f) == rm.M && f.Signature.Recv() != nil && typeName(f.Signature.Recv().Type()) == mt {
			vb = f
		}
	}
	for _, field := range rm.SizeFields {
		ok := false
		for _, f := range []*ssa.Function{vb, h} {
			if f == nil {
				continue
			}
			if hasRejectingCmp(c, f, func(op string, x, y *ir.Expr) bool {
				return (op == ">" || op == ">=") && x.Op == "call" && x.Name == "builtin:len" && len(x.Args) == 1 && isMsgField(x.Args[0], field) && y.Op == "const"
			}) {
				ok = true
			}
		}
		r.Require(ok, "A2.size-checks", rm.M+"."+field, w.Pos(h.Pos()), "an over-long "+field+" is rejected by a length comparison in ValidateBasic or the handler", "no rejecting len(msg."+field+") comparison")
	}
}

// ---------------------------------------------------------------------------------------

func C09(c *Ctx) {
	w, r := c.W, c.R
	r.Explanation = "(A1) the id counter and the registration section are written only from the roots of the registration life-cycle; (A3) the register route reads the id from the counter section, stores the registration and the default limit, and stores counter := id + 1 on every success path; " +
		"(A7) field fidelity of the registration literal: Moniker, Name, genesis hash / type come from the like-named message fields, Owner = str(addr(msg.Owner)), id = the counter value, cursor and counters zero, RegTime = block time, stored under the key of that id; " +
		"(A4) every other writer of the registration section (the record step) re-stores the loaded registration with only the cursor/counter fields changed — never Owner, Moniker, Name, Genesis, Type, RegTime or the id; (A2) owner guards are those of C13/C07 with the id of the key written; (A7) genesis export hands the stored id counter (the next unused id) to the exported starting id, so an export/import cycle cannot re-issue an id. Uniqueness as an inductive property of the counter and uint64 wrap are not decided."
	r.Rules = []string{"A1.registration-writers", "A3.id-counter", "A7.registration-fields", "A4.immutable-fields", "A7.exported-id-counter", "A12.decode-fresh", "A7.export-complete", "A7.export-fields", "A7.export-counters", "A2.entitlement-guard", "A7.import-fields"}
	// a registration keeps existing across a restart: the export lists every one of them (no page of a query helper)
	exportNotPaginated(c, "wrkchain", "beacon")
	// ... with the fields it was stored with (nothing rewritten on the way out)
	exportCountersRule(c, "", nil)
	// "only that owner can record to it or purchase storage for it": the entitlement guard of C13 for the two modules' messages
	for _, row := range entTable {
		if row.Module != "wrkchain" && row.Module != "beacon" {
			continue
		}
		if h := handlerOf(c, row.Module, row.Method); h != nil {
			entitlementGuard(c, row, h)
		}
	}
	exportGenesisArgs(c, "A7.exported-id-counter", true)
	// ... and the import stores each registration with the fields it was exported with (Type, Genesis, Owner, Moniker, Name, id)
	for _, m := range []string{"wrkchain", "beacon"} {
		importFields(c, m)
	}
	// a listing or an export hands back each registration as stored (no field inherited from the registration decoded before it)
	decodeFresh(c, "wrkchain", "beacon")
	r.Trusted = []string{"KVStore semantics"}
	r.NotDecided = []string{"uniqueness of ids over histories (inductive)", "uint64 wrap of the id counter at 2^64"}
	for _, rm := range recMods {
		n := whoMayReach(c, "A1.registration-writers", "the "+rm.M+" id counter", func(e ir.Effect) bool { return e.Kind == "StoreWrite" && e.Section == rm.SecHigh }, []string{"MSG:" + rm.M + "." + rm.Register, "INITGEN:" + rm.M})
		n += whoMayReach(c, "A1.registration-writers", "the "+rm.M+" registration section", func(e ir.Effect) bool { return e.Kind == "StoreWrite" && e.Section == rm.SecReg }, []string{"MSG:" + rm.M + "." + rm.Register, "MSG:" + rm.M + "." + rm.Record, "INITGEN:" + rm.M})
		n += whoMayReach(c, "A1.registration-writers", "deleting "+rm.M+" registrations", func(e ir.Effect) bool {
			return e.Kind == "StoreDelete" && (e.Section == rm.SecReg || e.Section == rm.SecHigh || e.Section == rm.SecLimit)
		}, []string{})
		r.Floor("root/registration-writer pairs of "+rm.M, n, 5)
		h := handlerOf(c, rm.M, rm.Register)
		if h == nil {
			r.Undecided("A3.id-counter", rm.M, "", "register handler found", "missing")
			continue
		}
		idCounter(c, h, rm.SecReg, rm.SecHigh, "A3.id-counter", []string{rm.SecLimit})
		nreg := 0
		for _, in := range storeStructs(c, h, rm.SecReg) {
			nreg++
			st := in.E
			for f, src := range rm.RegFields {
				v := fieldOfStruct(st, f)
				ok := false
				d := "<unresolved: " + st.String() + ">"
				if v != nil {
					d = v.String()
					switch src {
					case "@time":
						ok = isBlockTime(v)
					case "@zero":
						ok = isZeroConst(v)
					case "@owner":
						ok = v.Op == "call" && strings.HasSuffix(v.Name, "AccAddress).String") && len(v.Args) == 1 && isAddrOf(v.Args[0], "Owner")
					case "@newid":
						x := w.Expand(v, 3)
						ok = x.Any(func(z *ir.Expr) bool { return z.Op == "state" && z.Name == rm.SecHigh })
						for _, a := range x.Alts() {
							if !(a.Op == "const" && a.Name == "0") && !a.Any(func(z *ir.Expr) bool { return z.Op == "state" && z.Name == rm.SecHigh }) {
								ok = false
							}
						}
					default:
						ok = isMsgFieldAll(v, src)
					}
				}
				r.Require(ok, "A7.registration-fields", rm.M+"."+f, pos(c, in.Eff.Site), "registration field "+f+" is set from "+src, f+" = "+d)
			}
			if st.Op == "struct" {
				r.Require(len(st.Fields) == len(rm.RegFields), "A7.registration-fields", rm.M+"|field-count", pos(c, in.Eff.Site), "every field of the registration type has a specified origin", fmt.Sprintf("type has %d fields, table has %d", len(st.Fields), len(rm.RegFields)))
			}
			for _, up := range w.OriginsUpTo(in.Eff.Fn, in.Eff.Key, h, 8) {
				ka := keyArgs(up.E)
				idv := fieldOfStruct(st, rm.RegID)
				r.Require(len(ka) == 1 && idv != nil && ka[0].String() == idv.String(), "A7.registration-fields", rm.M+"|key=id", pos(c, in.Eff.Site), "the registration is stored under the key of its own id", "key "+up.E.String())
			}
		}
		r.Floor("registration writes reachable from "+rm.M+" register handler", nreg, 1)
		// the default limit is stored for the same id
		for _, in := range storeStructs(c, h, rm.SecLimit) {
			st := in.E
			lim := fieldOfStruct(st, "InStateLimit")
			r.Require(lim != nil && isModParam(c, lim, rm.M, "DefaultStorageLimit"), "A7.registration-fields", rm.M+"|default-limit", pos(c, in.Eff.Site), "a new registration's in-state limit is params.DefaultStorageLimit", fmt.Sprint(lim))
		}
		// A4: immutable fields in every other writer
		mutable := setOf(rm.Cursor, rm.Count, rm.Lowest)
		for _, other := range []string{rm.Record, rm.Purchase} {
			oh := handlerOf(c, rm.M, other)
			if oh == nil {
				continue
			}
			for _, in := range storeStructs(c, oh, rm.SecReg) {
				st := w.Expand(in.E, 4)
				if st.Op != "struct" {
					ok := false
					for _, a := range st.Alts() {
						if a.Op == "state" && a.Name == rm.SecReg {
							ok = true
						}
					}
					r.Require(ok, "A4.immutable-fields", rm.M+"."+other+"|whole", pos(c, in.Eff.Site), "a re-stored registration is the loaded one", "stored "+st.String())
					continue
				}
				for i, f := range st.Fields {
					if mutable[f] {
						continue
					}
					ok := regField(c, rm, st.Args[i], f)
					r.Require(ok, "A4.immutable-fields", rm.M+"."+other+"|"+f, pos(c, in.Eff.Site), "field "+f+" of a registration never changes after registration", f+" = "+st.Args[i].String())
				}
			}
		}
	}
}

// ---------------------------------------------------------------------------------------

func C08(c *Ctx) {
	r := c.R
	r.Explanation = "(A1) the storage-limit section is written only by registration (params.DefaultStorageLimit), by the purchase handler and by genesis import; " +
		"(A2) in the purchase handler every state-changing step is guarded by the owner predicate (C13), by not(limit+number > params.MaxStorageLimit) and by the wrap check not(limit+number < limit), where limit is the stored limit of the registration named in the message; the stored new limit is exactly that checked sum, under the key of that id; " +
		"(A9, sink-scoped) every uint64 +/- on message/state/param values in the functions reachable from the record and purchase handlers and the storage query is range-guarded by a dominating comparison (or is a ±1 counter step whose decrement is guarded by count > limit); " +
		"(A3) in the record step the record write is followed by count+1, and a prune (delete) is always paired with count-1 and an update of the lowest/first marker, the decrement never occurring without a delete; (A7) the storage query reports the keeper's saturating remaining-capacity value. 'Exactly the newest min(total, limit) records' is inductive and not decided."
	r.Rules = []string{"A1.limit-writers", "A2.purchase-guards", "A7.new-limit", "A9.uint64-range", "A3.prune-pairing", "A11.iter-end-bound", "A7.max-purchasable", "A3.lost-update", "A3.stale-element-pointer", "A3.element-carry", "A7.export-counters", "A7.import-accepts-export", "A2.record-guards", "A7.import-fields"}
	lostUpdateControl(c)
	// "the reported counters match what can actually be queried", across an export: the exported count and first-record
	// marker are recomputed from the records that are exported (the export is capped), not copied from the stored counters
	exportCountersRule(c, "A7.export-counters", map[string]bool{"NumBlocks": true, "LowestHeight": true, "NumInState": true, "FirstIdInState": true})
	// ... and every exported limit is written back as exported (a BEACON "still on the default" keeps its own entry: the
	// fallback of the getter is a compile-time constant, not the parameter)
	importRejects(c, "wrkchain", "beacon")
	for _, m := range []string{"wrkchain", "beacon"} {
		importFields(c, m)
	}
	r.Floor("state-changing steps of the WRKChain record handler behind the strict height test", recordsStrictlyHigher(c), 1)
	r.Floor("functions of wrkchain scanned for dropped updates to record copies", lostUpdates(c, "wrkchain"), 20)
	r.Floor("functions of beacon scanned for dropped updates to record copies", lostUpdates(c, "beacon"), 20)
	r.Trusted = []string{"the ante max-slot check is only an early reject; the handler is the authority"}
	r.NotDecided = []string{"exactly the newest min(total, limit) records are retained (inductive, numeric)", "behaviour after governance lowers limits below current usage"}
	storageLimitRules(c)
}

// storageLimitRules: the purchase guards, the stored new limit, the range guards of the uint64 arithmetic on limits and
// counters, the prune pairing and the storage query of both record modules (C08; C16 runs them too: "after a successful
// parameter update every limit check uses the new values").
func storageLimitRules(c *Ctx) {
	w, r := c.W, c.R
	for _, rm := range recMods {
		n := whoMayReach(c, "A1.limit-writers", "the "+rm.M+" storage-limit section", func(e ir.Effect) bool { return e.Kind == "StoreWrite" && e.Section == rm.SecLimit },
			[]string{"MSG:" + rm.M + "." + rm.Register, "MSG:" + rm.M + "." + rm.Purchase, "INITGEN:" + rm.M})
		r.Floor("root/limit-writer pairs of "+rm.M, n, 3)
		h := handlerOf(c, rm.M, rm.Purchase)
		if h == nil {
			r.Undecided("A2.purchase-guards", rm.M, "", "purchase handler found", "missing")
			continue
		}
		limitOf := func(e *ir.Expr) bool {
			k, ok := allStateField(c, e, rm.SecLimit, "InStateLimit")
			if !ok {
				// the getter falls back to a default struct when no limit is stored: accept alternatives that are constants
				x := w.Expand(e, 4)
				found := false
				for _, a := range x.Alts() {
					if isStateField(a, rm.SecLimit, "InStateLimit") {
						found = true
						k = stateKey(a)
					} else if a.Op != "const" && a.Op != "zero" && a.Op != "global" {
						return false
					}
				}
				if !found {
					return false
				}
			}
			ka := keyArgs(k)
			return len(ka) == 1 && isRegID(c, rm, ka[0])
		}
		// (the number may have been carried along in a record filled by a validation phase)
		isNumber := func(e *ir.Expr) bool {
			if isMsgField(e, "Number") {
				return true
			}
			nz := nonZeroAlts(w.Expand(e, 4))
			return len(nz) == 1 && isMsgField(nz[0], "Number")
		}
		isMax := func(y *ir.Expr) bool { return isModParam(c, y, rm.M, "MaxStorageLimit") }
		sum := func(e *ir.Expr) bool {
			e = stripConvE(e)
			return e != nil && e.Op == "bin" && e.Name == "+" && (limitOf(e.Args[0]) && isNumber(e.Args[1]) || limitOf(e.Args[1]) && isNumber(e.Args[0]))
		}
		notOverMax := func(p ir.Pred) bool {
			return cmpIs(p, "<=", sum, isMax)
		}
		noWrap := func(p ir.Pred) bool { return cmpIs(p, ">=", sum, limitOf) }
		// the same two facts in the subtractive spelling: number <= max - limit, with limit below max so that the headroom
		// itself cannot wrap; together they give limit + number <= max and (max being a uint64) no wrap of the sum
		headroom := func(p ir.Pred) bool {
			return cmpIs(p, "<=", isNumber, func(y *ir.Expr) bool {
				y = stripConvE(y)
				return y != nil && y.Op == "bin" && y.Name == "-" && isMax(y.Args[0]) && limitOf(y.Args[1])
			})
		}
		below := func(p ir.Pred) bool { return cmpIs(p, "<", limitOf, isMax) || cmpIs(p, "<=", limitOf, isMax) }
		// ... or number <= the saturating headroom (0 when the limit is not below max, else max - limit; that this
		// subtraction is itself guarded is A9's obligation at its site): number <= 0 raises nothing
		headroomSat := func(p ir.Pred) bool {
			return cmpIs(p, "<=", isNumber, func(y *ir.Expr) bool {
				x := w.Expand(stripConvE(y), 5)
				sub := false
				for _, a := range x.Alts() {
					a = stripConvE(a)
					switch {
					case a.Op == "const" && a.Name == "0":
					case a.Op == "bin" && a.Name == "-" && isMax(a.Args[0]) && limitOf(a.Args[1]):
						sub = true
					default:
						return false
					}
				}
				return sub && len(x.Alts()) >= 2
			})
		}
		byHeadroom := func(f *ssa.Function, s ssa.Instruction) bool {
			return w.Guarded(f, s, headroom, 2) && w.Guarded(f, s, below, 2) || w.Guarded(f, s, headroomSat, 3)
		}
		positive := func(p ir.Pred) bool {
			return cmpIs(p, "!=", isNumber, func(y *ir.Expr) bool { return y.Op == "const" && y.Name == "0" }) ||
				cmpIs(p, ">", isNumber, func(y *ir.Expr) bool { return y.Op == "const" && y.Name == "0" })
		}
		sites := mutatingSites(c, h, isStateMutation)
		r.Floor("mutating sites in "+rm.M+" purchase handler", len(sites), 1)
		for i, s := range sites {
			k := fmt.Sprintf("%s|site%d:%s", rm.M, i, siteName(c, s))
			r.Require(w.Guarded(h, s, notOverMax, 2) || byHeadroom(h, s), "A2.purchase-guards", "max|"+k, pos(c, s), "storage is increased only when limit + number <= params.MaxStorageLimit", "reachable without that comparison")
			r.Require(w.Guarded(h, s, noWrap, 2) || byHeadroom(h, s), "A2.purchase-guards", "no-wrap|"+k, pos(c, s), "storage is increased only when limit + number did not wrap (sum >= limit)", "reachable without an overflow check")
			r.Require(w.Guarded(h, s, positive, 2), "A2.purchase-guards", "positive|"+k, pos(c, s), "storage is increased only for number > 0", "reachable with number == 0")
		}
		nl := 0
		for _, in := range storeStructs(c, h, rm.SecLimit) {
			nl++
			lim := fieldOfStruct(in.E, "InStateLimit")
			r.Require(lim != nil && sum(lim), "A7.new-limit", rm.M+"|value", pos(c, in.Eff.Site), "the stored limit is exactly (stored limit of msg."+rm.IDField+") + msg.Number — the sum that was checked", fmt.Sprint(lim))
			for _, up := range w.OriginsUpTo(in.Eff.Fn, in.Eff.Key, h, 8) {
				ka := keyArgs(up.E)
				r.Require(len(ka) == 1 && isRegID(c, rm, ka[0]), "A7.new-limit", rm.M+"|key", pos(c, in.Eff.Site), "the limit is stored for the registration named in the message", "key "+up.E.String())
			}
		}
		r.Floor("limit writes reachable from "+rm.M+" purchase handler", nl, 1)
		uint64Range(c, rm, []*ssa.Function{h, handlerOf(c, rm.M, rm.Record), queryOf(c, rm.M, rm.StorageQuery)}, sum, byHeadroom)
		prunePairing(c, rm)
		// the markers recomputed after a prune come from scans of the record section: none may stop short of its last record
		if ni, nbad := iterEndBounds(c, "A11.iter-end-bound", moduleFuncs(c, rm.M), true); nbad == 0 {
			r.OK("A11.iter-end-bound", rm.M+"|none", "", fmt.Sprintf("no raw store iterator of %s ends at an ordinary key (%d raw iterators)", rm.M, ni))
		}
		// A7: storage query
		if q := queryOf(c, rm.M, rm.StorageQuery); q != nil {
			ok := false
			var got string
			for _, ret := range w.SuccessReturns(q) {
				e := w.ExprOf(ret.Results[0])
				got = e.String()
				mp := structFromPtr(c, ret.Results[0], "MaxPurchasable")
				if mp != nil {
					got = mp.String()
					x := w.Expand(mp, 5)
					// saturating: alternatives are 0 or (max - limit), and the subtraction is guarded (checked by A9)
					good := true
					sub := false
					sat := false
					for _, a := range x.Alts() {
						if a.Op == "const" && a.Name == "0" {
							sat = true
							continue
						}
						if a.Op == "bin" && a.Name == "-" && isModParam(c, a.Args[0], rm.M, "MaxStorageLimit") {
							sub = true
							continue
						}
						good = false
					}
					ok = good && sub && sat
					got = x.String()
				}
			}
			r.Require(ok, "A7.max-purchasable", rm.M, w.Pos(q.Pos()), "the storage query reports the keeper's saturating remaining capacity max(0, max - limit)", "MaxPurchasable = "+got)
		}
	}
}

// structFromPtr finds the value stored into field f of the struct a returned pointer points to.
func structFromPtr(c *Ctx, v ssa.Value, f string) *ir.Expr {
	a, ok := v.(*ssa.Alloc)
	if !ok {
		return nil
	}
	refs := a.Referrers()
	if refs == nil {
		return nil
	}
	for _, rf := range *refs {
		fa, ok := rf.(*ssa.FieldAddr)
		if !ok {
			continue
		}
		if fieldNameOf(fa) != f {
			continue
		}
		if fr := fa.Referrers(); fr != nil {
			for _, x := range *fr {
				if st, ok := x.(*ssa.Store); ok {
					return c.W.ExprOf(st.Val)
				}
			}
		}
	}
	return nil
}

func fieldNameOf(fa *ssa.FieldAddr) string { return ir.FieldName(fa.X.Type(), fa.Field) }

// uint64Range (A9): every uint64 add/sub on non-constant operands in module functions
// reachable from the given roots is range-guarded.
func uint64Range(c *Ctx, rm recMod, roots []*ssa.Function, checkedSum func(*ir.Expr) bool, altGuard func(*ssa.Function, ssa.Instruction) bool) {
	w, r := c.W, c.R
	var rs []*ssa.Function
	for _, f := range roots {
		if f != nil {
			rs = append(rs, f)
		}
	}
	n := 0
	for f := range w.Reachable(rs) {
		// the module's own code and code shared between modules (an internal helper package) it reaches
		if mo := ir.ModuleOf(f); mo != rm.M && isCustomModule(mo) || w.IsGenerated(f) || ir.FnPkg(f) == nil || !ir.InScope(ir.FnPkg(f)) {
			continue
		}
		for _, b := range f.Blocks {
			for _, in := range b.Instrs {
				bo, ok := in.(*ssa.BinOp)
				if !ok || (bo.Op != token.ADD && bo.Op != token.SUB) || bo.Type().String() != "uint64" {
					continue
				}
				_, cx := bo.X.(*ssa.Const)
				_, cy := bo.Y.(*ssa.Const)
				if cx && cy {
					continue
				}
				x, y := w.ExprOf(bo.X), w.ExprOf(bo.Y)
				if !(dependsOnInput(x) || dependsOnInput(y)) {
					continue
				}
				n++
				key := fmt.Sprintf("%s|%s|%s", fn(f), bo.Op, w.ExprOf(bo).String())
				if len(key) > 200 {
					key = key[:200]
				}
				one := cy && y.Name == "1"
				var ok2 bool
				var why string
				switch {
				case bo.Op == token.ADD && one:
					ok2, why = true, "increment by one (counter step)"
				case bo.Op == token.SUB:
					// guarded by x > _, x >= y, x != 0 ...
					subGuard := func(x, y *ir.Expr) ir.Matcher {
						return func(p ir.Pred) bool {
							if cmpIs(p, ">=", func(a *ir.Expr) bool { return a.String() == x.String() }, func(b2 *ir.Expr) bool { return b2.String() == y.String() }) ||
								cmpIs(p, ">", func(a *ir.Expr) bool { return a.String() == x.String() }, func(b2 *ir.Expr) bool { return b2.String() == y.String() }) {
								return true
							}
							if one {
								// x - 1 under x > anything (uint64) or x != 0
								return cmpIs(p, ">", func(a *ir.Expr) bool { return a.String() == x.String() }, func(*ir.Expr) bool { return true }) ||
									cmpIs(p, "!=", func(a *ir.Expr) bool { return a.String() == x.String() }, func(b2 *ir.Expr) bool { return b2.Op == "const" && b2.Name == "0" })
							}
							return false
						}
					}
					ok2 = w.Guarded(f, in, subGuard(x, y), 1)
					if !ok2 {
						// the guard may stand in a caller (the step was extracted into a helper): judge every call chain
						// from the handlers, with the operands in the caller's terms
						n2, all := 0, true
						tup := &ir.Expr{Op: "tuple", Args: []*ir.Expr{x, y}}
						for _, root := range rs {
							for _, up := range w.OriginsUpTo(f, tup, root, 8) {
								if len(up.Chain) == 0 || up.E.Op != "tuple" || len(up.E.Args) != 2 {
									continue
								}
								n2++
								if !chainGuarded(c, root, up.Chain, in, subGuard(up.E.Args[0], up.E.Args[1]), 1) {
									all = false
								}
							}
						}
						ok2 = n2 > 0 && all
					}
					why = "subtraction needs a dominating x >= y (or x > _ for x-1)"
				case bo.Op == token.ADD:
					// wrap check after the fact: every use is guarded by sum >= operand; or the sum (instantiated at the handler) is the checked sum
					ok2 = addIsChecked(c, f, bo, roots, checkedSum, altGuard)
					why = "addition needs a wrap check (sum >= operand) guarding its uses"
				}
				r.Require(ok2, "A9.uint64-range", key, pos(c, in), "uint64 arithmetic on message/state/parameter values cannot wrap: "+why, "unguarded "+w.ExprOf(bo).String())
			}
		}
	}
	r.Floor("uint64 add/sub sites on inputs in "+rm.M, n, 4)
}

func dependsOnInput(e *ir.Expr) bool {
	return e.Any(func(x *ir.Expr) bool {
		switch x.Op {
		case "param", "state", "call", "free", "captured":
			return true
		}
		return false
	})
}

// addIsChecked: the sum, instantiated up to one of the roots, is the handler's checked sum and
// the call leading to it is guarded there; or locally every use is dominated by a wrap check.
func addIsChecked(c *Ctx, f *ssa.Function, bo *ssa.BinOp, roots []*ssa.Function, checkedSum func(*ir.Expr) bool, altGuard func(*ssa.Function, ssa.Instruction) bool) bool {
	w := c.W
	e := w.ExprOf(bo)
	wrapGuard := func(sumStr string, ops ...string) ir.Matcher {
		return func(p ir.Pred) bool {
			return cmpIs(p, ">=", func(a *ir.Expr) bool { return a.String() == sumStr }, func(b *ir.Expr) bool {
				for _, o := range ops {
					if b.String() == o {
						return true
					}
				}
				return false
			})
		}
	}
	x, y := w.ExprOf(bo.X).String(), w.ExprOf(bo.Y).String()
	// local: all non-comparison uses guarded
	refs := bo.Referrers()
	local := refs != nil
	if refs != nil {
		for _, rf := range *refs {
			if b2, ok := rf.(*ssa.BinOp); ok {
				switch b2.Op {
				case token.LSS, token.GTR, token.LEQ, token.GEQ, token.EQL, token.NEQ:
					continue
				}
			}
			if _, ok := rf.(*ssa.DebugRef); ok {
				continue
			}
			if !w.Guarded(f, rf, wrapGuard(e.String(), x, y), 1) {
				// uses that only build an error message are harmless
				if isErrorOnlyUse(c, f, rf) {
					continue
				}
				// handed back to the callers (a helper computing the sum and a verdict): judge what each caller does with it
				if ret, ok := rf.(*ssa.Return); ok && returnedSumChecked(c, f, ret, bo, wrapGuard) {
					continue
				}
				local = false
			}
		}
	}
	if local {
		return true
	}
	for _, root := range roots {
		if root == nil || root == f {
			continue
		}
		for _, up := range w.OriginsUpTo(f, e, root, 8) {
			if checkedSum(up.E) && len(up.Chain) > 0 {
				s := up.E.String()
				xs, ys := up.E.Args[0].String(), up.E.Args[1].String()
				if w.Guarded(root, up.Chain[0], wrapGuard(s, xs, ys), 2) || altGuard != nil && altGuard(root, up.Chain[0]) {
					return true
				}
			}
		}
	}
	return false
}

// returnedSumChecked: the sum is a result of helper f; at every call site of f each use of that result is
// guarded by the wrap check (typically through the helper's own verdict result) or only builds an error.
func returnedSumChecked(c *Ctx, f *ssa.Function, ret *ssa.Return, bo *ssa.BinOp, wrapGuard func(string, ...string) ir.Matcher) bool {
	w := c.W
	ri := -1
	for i, v := range ret.Results {
		if v == ssa.Value(bo) {
			ri = i
		}
	}
	callers := w.Callers(f)
	if ri < 0 || len(callers) == 0 {
		return false
	}
	tup := &ir.Expr{Op: "tuple", Args: []*ir.Expr{w.ExprOf(bo), w.ExprOf(bo.X), w.ExprOf(bo.Y)}}
	for _, ed := range callers {
		call, ok := ed.Site.(*ssa.Call)
		if !ok {
			return false
		}
		g := call.Parent()
		up := w.ArgSubst(call, f, tup)
		if up.Op != "tuple" || len(up.Args) != 3 {
			return false
		}
		m := wrapGuard(up.Args[0].String(), up.Args[1].String(), up.Args[2].String())
		var uses []ssa.Instruction
		if f.Signature.Results().Len() == 1 {
			if call.Referrers() != nil {
				uses = append(uses, *call.Referrers()...)
			}
		} else if call.Referrers() != nil {
			for _, x := range *call.Referrers() {
				if ex, ok := x.(*ssa.Extract); ok && ex.Index == ri && ex.Referrers() != nil {
					uses = append(uses, *ex.Referrers()...)
				}
			}
		}
		for _, u := range uses {
			if _, dbg := u.(*ssa.DebugRef); dbg {
				continue
			}
			if w.Guarded(g, u, m, 2) || isErrorOnlyUse(c, g, u) {
				continue
			}
			return false
		}
	}
	return true
}

// isErrorOnlyUse: the instruction feeds only the construction of an error value.
func isErrorOnlyUse(c *Ctx, f *ssa.Function, in ssa.Instruction) bool {
	for _, ret := range c.W.SuccessReturns(f) {
		if ir.ReachesFrom(f, in.Block(), ir.InstrIndex(in), ret, ir.Cut{}) {
			return false
		}
	}
	return true
}

// prunePairing: in the function that both writes and deletes records, the delete is paired with
// count-1 and a lowest/first update; count+1 follows the write; count-1 never occurs without the delete.
func prunePairing(c *Ctx, rm recMod) {
	w, r := c.W, c.R
	isW := func(e ir.Effect) bool { return e.Kind == "StoreWrite" && e.Section == rm.SecRec }
	isD := func(e ir.Effect) bool { return e.Kind == "StoreDelete" && e.Section == rm.SecRec }
	n := 0
	for _, f := range w.Funcs {
		if ir.ModuleOf(f) != rm.M || w.IsGenerated(f) || !c.Rooted(f) {
			continue
		}
		wr := findInstrs(f, callReaching(c, f, isW))
		dl := findInstrs(f, callReaching(c, f, isD))
		if len(wr) == 0 || len(dl) == 0 || len(wr) > 0 && callReaching(c, f, isD)(wr[0]) {
			continue
		}
		// Asked on the flat (call-expanded) view of f: the record write / delete, the counter and marker
		// assignments and the registration re-store may each stand in f or in a helper it calls.
		isFieldStore := func(field string, op token.Token) func(ssa.Instruction) bool {
			return func(in ssa.Instruction) bool {
				st, ok := in.(*ssa.Store)
				if !ok {
					return false
				}
				fa, ok := st.Addr.(*ssa.FieldAddr)
				if !ok || ir.FieldName(fa.X.Type(), fa.Field) != field {
					return false
				}
				if op == token.ILLEGAL {
					return true
				}
				if bo, ok := st.Val.(*ssa.BinOp); ok && bo.Op == op {
					if cst, ok := bo.Y.(*ssa.Const); ok && cst.Value != nil && cst.Value.String() == "1" {
						return true
					}
				}
				return false
			}
		}
		isInc := isFieldStore(rm.Count, token.ADD)
		isDec := isFieldStore(rm.Count, token.SUB)
		isLow := isFieldStore(rm.Lowest, token.ILLEGAL)
		isWr := directSites(c, isW)
		isDl := directSites(c, isD)
		isRe := directSites(c, func(e ir.Effect) bool { return e.Kind == "StoreWrite" && e.Section == rm.SecReg })
		n++
		root := w.FlatRoot(f)
		count := func(is func(ssa.Instruction) bool) int { return len(w.FlatOccurrences(root, is)) }
		nInc, nDec, nLow := count(isInc), count(isDec), count(isLow)
		afterNeeds := func(from func(ssa.Instruction) bool, need func(ssa.Instruction) bool) (bad *ir.FPos) {
			for _, occ := range w.FlatOccurrences(root, from) {
				o := occ
				if hit := w.FlatReaches(root, &o, &ir.FlatCut{Barrier: func(_ *ir.FCtx, in ssa.Instruction) bool { return need(in) }}, func(p ir.FPos) bool { return isRe(p.In) }); hit != nil {
					return &o
				}
			}
			return nil
		}
		// the same clause stated on values: at every occurrence of the registration re-store, the count stored is the
		// loaded count + (1 if a record was written on the way) - (1 if one was deleted) — however it was computed (a
		// plan worked out before the writes, say); and after a delete the marker stored is never the loaded one
		// (the pruning step counts as a whole: a delete helper that skips an absent key is still the delete step)
		dlStep := func(in ssa.Instruction) bool {
			if isDl(in) {
				return true
			}
			if call, ok := in.(ssa.CallInstruction); ok {
				for _, t := range w.CalleesOf(call) {
					if reachesEffect(c, t, isD) && !reachesEffect(c, t, isW) {
						return true
					}
				}
			}
			return false
		}
		balanced, lowFresh, lowDetail := countBalance(c, rm, f, isWr, dlStep, isRe)
		if lowFresh != "" {
			r.Require(lowFresh == "ok", "A3.prune-pairing", rm.M+"|pruned-marker-moves|"+fn(f), w.Pos(f.Pos()), "after a record was deleted the "+rm.Lowest+" marker stored is not the loaded one (which names the deleted record)", lowDetail)
		}
		// after the record write, every path to the registration re-store passes count+1
		bad := afterNeeds(isWr, isInc)
		if balanced && (bad != nil || nInc == 0 || afterNeeds(isDl, isDec) != nil || nDec == 0) {
			r.OK("A3.prune-pairing", rm.M+"|count-balance|"+fn(f), w.Pos(f.Pos()), "the stored "+rm.Count+" is the loaded one +1 per record written and -1 per record deleted on the way, at every occurrence of the re-store")
			bad = afterNeeds(isDl, isLow)
			r.Require(bad == nil && nLow > 0, "A3.prune-pairing", rm.M+"|delete->lowest|"+fn(f), w.Pos(f.Pos()), "after pruning, the "+rm.Lowest+" marker is updated before the registration is stored", "a path stores the registration without updating it")
			continue
		}
		r.Require(bad == nil && nInc > 0, "A3.prune-pairing", rm.M+"|write->count+1|"+fn(f), w.Pos(f.Pos()), "a recorded item is always counted ("+rm.Count+" + 1) before the registration is stored", "a path stores the registration without the increment")
		bad = afterNeeds(isDl, isDec)
		r.Require(bad == nil && nDec > 0, "A3.prune-pairing", rm.M+"|delete->count-1|"+fn(f), w.Pos(f.Pos()), "a pruned record is always un-counted ("+rm.Count+" - 1) before the registration is stored", "a path stores the registration without the decrement")
		bad = afterNeeds(isDl, isLow)
		r.Require(bad == nil && nLow > 0, "A3.prune-pairing", rm.M+"|delete->lowest|"+fn(f), w.Pos(f.Pos()), "after pruning, the "+rm.Lowest+" marker is updated before the registration is stored", "a path stores the registration without updating it")
		if nDec > 0 {
			// (the pruning step counts as a whole: a delete helper that skips an absent key is still the delete step)
			isDlStep := func(in ssa.Instruction) bool {
				if isDl(in) {
					return true
				}
				if call, ok := in.(ssa.CallInstruction); ok {
					for _, t := range w.CalleesOf(call) {
						if reachesEffect(c, t, isD) && !reachesEffect(c, t, isW) {
							return true
						}
					}
				}
				return false
			}
			// ... and so is the inlined form of that helper: the delete skipped on the edge where the record key is absent
			absent := func(p ir.Pred) bool {
				return !p.Pol && p.E.Op == "call" && strings.HasSuffix(p.E.Name, ".Has") && len(p.E.Args) == 2 && w.SectionOfKey(p.E.Args[1]) == rm.SecRec
			}
			cutAbsent := &ir.FlatCut{Matcher: absent, Depth: 2, Barrier: func(_ *ir.FCtx, in ssa.Instruction) bool { return isDlStep(in) && !isDec(in) }}
			precedes := w.FlatReaches(w.FlatRoot(f), nil, cutAbsent, func(p ir.FPos) bool { return isDec(p.In) }) == nil
			r.Require(precedes, "A3.prune-pairing", rm.M+"|count-1 needs delete|"+fn(f), w.Pos(f.Pos()), "the in-state count is decremented only after a record was deleted", "a path decrements without deleting")
			// and only when count > limit
			un := w.FlatGuarded(f, isDec, func(p ir.Pred) bool {
				return cmpIs(p, ">", func(a *ir.Expr) bool {
					return a.Any(func(z *ir.Expr) bool { return z.Op == "field" && z.Name == rm.Count })
				}, func(b *ir.Expr) bool {
					_, ok := allStateField(c, b, rm.SecLimit, "InStateLimit")
					return ok || w.Expand(b, 4).Any(func(z *ir.Expr) bool { return isStateField(z, rm.SecLimit, "InStateLimit") })
				})
			}, 1)
			r.Require(len(un) == 0, "A3.prune-pairing", rm.M+"|prune-only-over-limit|"+fn(f), w.Pos(f.Pos()), "pruning happens only when the in-state count exceeds the stored in-state limit", "no dominating count > limit")
		}
	}
	r.Floor("insert-then-prune functions of "+rm.M, n, 1)
}

func isCustomModule(m string) bool {
	for _, x := range ir.Modules {
		if x == m {
			return true
		}
	}
	return false
}

// countBalance judges the counters of a registration on the flat view of f, occurrence by occurrence of the registration
// re-store (told apart by which record writes / deletes were executed on the way and by what the helpers on the way
// returned): balanced = the count stored is always loaded count + writes - deletes; low = "ok" / "bad" / "" (not
// resolvable): after a delete the marker stored is never the loaded marker.
func countBalance(c *Ctx, rm recMod, f *ssa.Function, isWr, isDl, isRe func(ssa.Instruction) bool) (balanced bool, low string, lowDetail string) {
	w := c.W
	root := w.FlatRoot(f)
	cut := &ir.FlatCut{Mark: func(_ *ir.FCtx, in ssa.Instruction) bool { return isWr(in) || isDl(in) }}
	var occ []ir.FPos
	w.FlatWalk(root, nil, cut, func(p ir.FPos) bool {
		if isRe(p.In) {
			occ = append(occ, p)
		}
		return true
	})
	if len(occ) == 0 {
		return false, "", ""
	}
	// the value stored into field `field` of the registration handed to the re-store: found in the context, on the way
	// down to the re-store, that passes a registration loaded from a local record as an argument
	fieldValue := func(p ir.FPos, field string) (*ir.FCtx, ssa.Instruction, ssa.Value) {
		for ctx := p.Ctx; ctx != nil && ctx.Call != nil; ctx = ctx.Up {
			for _, a := range ctx.Call.Common().Args {
				u, ok := a.(*ssa.UnOp)
				if !ok {
					continue
				}
				al, ok := u.X.(*ssa.Alloc)
				if !ok {
					continue
				}
				st, ok := al.Type().Underlying().(*types.Pointer).Elem().Underlying().(*types.Struct)
				if !ok {
					continue
				}
				for i := 0; i < st.NumFields(); i++ {
					if st.Field(i).Name() == field {
						if v := ir.FieldValueAt(al, i, u); v != nil {
							return ctx.Up, u, v
						}
						return nil, nil, nil
					}
				}
			}
		}
		return nil, nil, nil
	}
	consistentAlts := func(p ir.FPos, ctx *ir.FCtx, at ssa.Instruction, v ssa.Value) []*ir.Expr {
		var out []*ir.Expr
		for _, a := range altsAtCtx(c, root, ctx, 0, at, v) {
			rt, isRet := a.Pos.In.(*ssa.Return)
			if a.Pos.Ctx == ctx || !isRet || p.ConsistentReturn(w, a.Pos.Ctx, rt) {
				out = append(out, w.Expand(a.E, 3))
			}
		}
		return out
	}
	balanced = true
	low = "ok"
	for _, p := range occ {
		want := 0
		if p.PassedAny(isWr) {
			want++
		}
		deleted := p.PassedAny(isDl)
		if deleted {
			want--
		}
		ctx, at, v := fieldValue(p, rm.Count)
		if os.Getenv("MCDEBUG") == "bal" {
			fmt.Fprintln(os.Stderr, "bal occ", fn(f), strings.Join(p.Ctx.Chain(), ">"), "want", want, "deleted", deleted, "v", v, "facts", p.FactsString())
			if v != nil {
				for _, e := range consistentAlts(p, ctx, at, v) {
					fmt.Fprintln(os.Stderr, "   alt", e.String())
				}
			}
		}
		if v == nil {
			balanced = false
		} else {
			alts := consistentAlts(p, ctx, at, v)
			if len(alts) == 0 {
				balanced = false
			}
			fits := func(a *ir.Expr) bool {
				base, k, ok := linearForm(a)
				if !ok || k != want {
					return false
				}
				_, isState := allStateField(c, base, rm.SecReg, rm.Count)
				return isState
			}
			for _, e := range alts {
				if fits(e) {
					continue
				}
				for _, a := range e.Alts() {
					if a.Op != "zero" && !fits(a) || len(e.Alts()) == 1 {
						balanced = false
					}
				}
			}
		}
		if deleted {
			ctx, at, v := fieldValue(p, rm.Lowest)
			if v == nil {
				if low == "ok" {
					low = ""
				}
				continue
			}
			for _, e := range consistentAlts(p, ctx, at, v) {
				for _, a := range e.Alts() {
					if _, isState := allStateField(c, a, rm.SecReg, rm.Lowest); isState {
						low = "bad"
						lowDetail = "after the delete the stored " + rm.Lowest + " can be the loaded " + rm.Lowest + " (" + a.String() + ")"
					}
				}
			}
		}
	}
	return balanced, low, lowDetail
}

// linearForm: e = base + k for an integer constant k (nested +/- of constants folded).
func linearForm(e *ir.Expr) (*ir.Expr, int, bool) {
	e = stripConvE(e)
	k := 0
	for e != nil && e.Op == "bin" && (e.Name == "+" || e.Name == "-") && len(e.Args) == 2 {
		cst := e.Args[1]
		if cst.Op != "const" {
			break
		}
		var n int
		if _, err := fmt.Sscanf(cst.Name, "%d", &n); err != nil {
			return nil, 0, false
		}
		if e.Name == "+" {
			k += n
		} else {
			k -= n
		}
		e = stripConvE(e.Args[0])
	}
	return e, k, e != nil
}

// isRegID: e names the registration the message names: msg.<id> itself, or the id field of the registration loaded under
// that key — a registration is stored under the key of its own id (A7.registration-fields|key=id, and the import rules),
// so state(key(X)).id is X; the empty alternative a getter hands back with found=false is not what a handler that
// checked found goes on with.
func isRegID(c *Ctx, rm recMod, e *ir.Expr) bool {
	for i := 0; i < 4 && e != nil; i++ {
		if isMsgField(e, rm.IDField) {
			return true
		}
		x := c.W.Expand(e, 3)
		nz := nonZeroAlts(x)
		if len(nz) != 1 {
			return false
		}
		x = nz[0]
		if isMsgField(x, rm.IDField) {
			return true
		}
		if !isStateField(x, rm.SecReg, rm.RegID) {
			return false
		}
		ka := keyArgs(stateKey(x))
		if len(ka) != 1 {
			return false
		}
		e = ka[0]
	}
	return false
}

// recordsStrictlyHigher (A2.record-guards|strictly-higher): every state-changing step of the WRKChain record handler stands
// behind msg.Height > stored Lastblock of that WRKChain. C07 states it for immutability; C08's retention ("the newest
// min(total, limit) records", pruned one at a time from the lowest) rests on it as well: a height accepted below the last
// one moves Lastblock back and makes the prune step delete a record newer than the one just stored.
func recordsStrictlyHigher(c *Ctx) int {
	w, r := c.W, c.R
	n := 0
	for _, rm := range recMods {
		if rm.M != "wrkchain" {
			continue
		}
		h := handlerOf(c, rm.M, rm.Record)
		if h == nil {
			r.Undecided("A2.record-guards", rm.M, "", "record handler found", "missing")
			continue
		}
		strict := func(p ir.Pred) bool {
			return cmpIs(p, ">", func(x *ir.Expr) bool { return isMsgField(x, "Height") }, func(y *ir.Expr) bool { return regField(c, rm, y, rm.Cursor) })
		}
		for i, s := range mutatingSites(c, h, isStateMutation) {
			n++
			k := fmt.Sprintf("%s|site%d:%s", rm.M, i, siteName(c, s))
			r.Require(w.Guarded(h, s, strict, 3), "A2.record-guards", "strictly-higher|"+k, pos(c, s), "a WRKChain record is accepted only when msg.Height > stored Lastblock of msg.WrkchainId (strict)", "reachable without the strict comparison")
		}
	}
	return n
}
