package props

import (
	"fmt"
	"strings"

	"golang.org/x/tools/go/ssa"

	"mcverif/internal/ir"
)

// oneContext is rule A6.one-context: a function that branches the state (`cacheCtx, write := ctx.CacheContext()`) in order
// to keep or drop the steps of one operation together runs every state-changing step of that operation on the branch. A
// step left on the parent context (`k.MintCoinsAndLock(ctx, ...)` between writes made through cacheCtx) is committed
// whatever happens to the branch: when the branch is dropped — the very case it was made for — that step's effect stays
// while the bookkeeping around it is rolled back (coins minted for an order that stays accepted and is minted again in
// every following block). Judged per function: among the state-changing calls reachable after the CacheContext call, none
// takes a context derived from the function's own context parameter while another takes one derived from the branch.
// Returns the number of branching functions judged.
func oneContext(c *Ctx, kinds []string, mods ...string) int {
	w, r := c.W, c.R
	inMod := map[string]bool{}
	for _, m := range mods {
		inMod[m] = true
	}
	var fs []*ssa.Function
	for f := range consensusScope(c, kinds) {
		if !w.IsGenerated(f) && !ir.IsFixture(f) && inMod[ir.ModuleOf(f)] {
			fs = append(fs, f)
		}
	}
	for _, f := range w.Funcs {
		if ir.IsFixture(f) && ir.FnPkg(f) != nil && ir.FnPkg(f).Name() == "c14" {
			fs = append(fs, f)
		}
	}
	sortFuncs(fs)
	n := 0
	ctl := map[string]bool{}
	for _, f := range fs {
		var branch *ssa.Call
		for _, b := range f.Blocks {
			for _, in := range b.Instrs {
				if call, ok := in.(*ssa.Call); ok {
					if sc := call.Common().StaticCallee(); sc != nil && sc.Name() == "CacheContext" && strings.HasSuffix(ir.FuncName(sc), "types.Context).CacheContext") {
						branch = call
					}
				}
			}
		}
		if branch == nil {
			continue
		}
		// where a context value comes from: the branch, or the function's own context
		var rootOf func(v ssa.Value, depth int) string
		rootOf = func(v ssa.Value, depth int) string {
			if depth > 8 {
				return ""
			}
			switch x := v.(type) {
			case *ssa.Parameter:
				return "parent"
			case *ssa.Extract:
				if x.Tuple == ssa.Value(branch) {
					return "branch"
				}
			case *ssa.Call:
				// ctx.WithX(...) keeps the store of its receiver
				if sc := x.Common().StaticCallee(); sc != nil && strings.HasPrefix(sc.Name(), "With") && len(x.Common().Args) > 0 {
					return rootOf(x.Common().Args[0], depth+1)
				}
			case *ssa.Phi:
				kinds := map[string]bool{}
				for _, e := range x.Edges {
					kinds[rootOf(e, depth+1)] = true
				}
				if len(kinds) == 1 {
					for k := range kinds {
						return k
					}
				}
			case *ssa.UnOp:
				if al, ok := x.X.(*ssa.Alloc); ok {
					if st := lastStoreBefore(x, al); st != nil {
						return rootOf(st.Val, depth+1)
					}
				}
			}
			return ""
		}
		isMut := callReaching(c, f, isStateMutation)
		var onParent, onBranch []ssa.Instruction
		for _, b := range f.Blocks {
			for _, in := range b.Instrs {
				call, ok := in.(ssa.CallInstruction)
				if !ok || in == ssa.Instruction(branch) || !(isMut(in) || ir.IsFixture(f)) {
					continue
				}
				if !ir.ReachesFrom(f, branch.Block(), ir.InstrIndex(branch)+1, in, ir.Cut{}) {
					continue
				}
				args := call.Common().Args
				if call.Common().IsInvoke() {
					args = append([]ssa.Value{call.Common().Value}, args...)
				}
				for _, a := range args {
					if !strings.HasSuffix(a.Type().String(), "cosmos-sdk/types.Context") {
						continue
					}
					switch rootOf(a, 0) {
					case "parent":
						onParent = append(onParent, in)
					case "branch":
						onBranch = append(onBranch, in)
					}
				}
			}
		}
		if ir.IsFixture(f) {
			ctl[f.Name()] = len(onParent) > 0 && len(onBranch) > 0
			continue
		}
		n++
		bad := len(onParent) > 0 && len(onBranch) > 0
		where := w.Pos(f.Pos())
		detail := ""
		if bad {
			where = pos(c, onParent[0])
			detail = fmt.Sprintf("%s runs on the function's own context while %s runs on the branch made at %s", siteName(c, onParent[0]), siteName(c, onBranch[0]), w.InstrPos(branch))
		}
		r.Require(!bad, "A6.one-context", fn(f), where,
			"every state-changing step that follows a CacheContext() in a function runs on that branch (a step on the parent context is committed even when the branch is dropped)", detail)
	}
	r.Control("A6.one-context", "fixtures/c14", ctl["MixesContexts"] && !ctl["OneContext"])
	if n == 0 {
		r.OK("A6.one-context", strings.Join(mods, ",")+"|none", "", "no function on these paths branches the state with CacheContext()")
	}
	return n
}
