package props

import (
	"fmt"
	"go/ast"
	"go/types"
	"strings"

	"golang.org/x/tools/go/ssa"

	"mcverif/internal/ir"
	"mcverif/internal/load"
)

func init() { Registry["C02"] = C02 }

const (
	permMinter  = "minter"
	permBurner  = "burner"
	permStaking = "staking"
)

// MaccPerms evaluates app.maccPerms.
func MaccPerms(c *Ctx) (map[string][]string, string, error) {
	pk := c.W.Pkg("app")
	if pk == nil {
		return nil, "", fmt.Errorf("package app not loaded")
	}
	init := c.W.VarInit(pk, maccPermsVar(c))
	if init == nil {
		return nil, "", fmt.Errorf("app.%s initialiser not found", maccPermsVar(c))
	}
	m, err := ir.EvalStringSetMap(pk, init)
	return m, c.W.Pos(init.Pos()), err
}

func holders(m map[string][]string, perm string) map[string]bool {
	out := map[string]bool{}
	for k, vs := range m {
		for _, v := range vs {
			if v == perm {
				out[k] = true
			}
		}
	}
	return out
}

func C02(c *Ctx) {
	w, r := c.W, c.R
	r.Explanation = "Who-may-call and guard analysis over the resolved program (go/ssa, repo-restricted CHA call graph): " +
		"(A1) the interface method MintCoins is reachable from ABCI roots only through enterprise BeginBlock; no BurnCoins call exists; " +
		"(A2) the call chain from that root to the mint site carries as amount exactly the Amount field of a purchase order read from the order section, under a Status==Accepted guard on the same order, the id ranging over the accepted queue; " +
		"(A5) maccPerms evaluated as a constant: Minter/Burner holders are exactly the expected module accounts; no repo package imports x/mint; " +
		"(A7) only the enterprise BankKeeper interface declares MintCoins and none declares BurnCoins; the bank store key flows only into bankkeeper.NewBaseKeeper. " +
		"Decides structural necessary conditions of C02, not the bank module's balance/supply invariant."
	r.Rules = []string{"A1.mint-roots", "A1.burn", "A2.mint-amount", "A2.mint-guard", "A5.maccperms", "A5.no-mint-module", "A7.capability", "A1.bank-storekey", "TS.status-transition", "A3.completion-pairing", "A3.tally-pairing", "A3.one-block-delay", "A7.derived-queues", "A7.import-fields", "A6.one-context"}
	r.Trusted = []string{"cosmos-sdk x/bank: MintCoins panics without Minter permission; supply changes only via MintCoins/BurnCoins", "ibc-go transfer voucher mint/burn (not native coin)", "go/ssa + CHA call graph restricted to repo types over-approximates calls"}
	r.NotDecided = []string{"bank's own Σbalances==supply invariant", "IBC voucher minting", "SDK-internal callers (thorough tier cross-checks with whole-program VTA)"}

	isMint := func(e ir.Effect) bool { return e.Kind == "Mint" }
	isBurn := func(e ir.Effect) bool { return e.Kind == "Burn" }

	// A1 mint
	n := whoMayReach(c, "A1.mint-roots", "MintCoins", isMint, []string{"BEGIN:enterprise"})
	r.Floor("roots reaching MintCoins", n, 1)
	all := w.AllEffects(isMint)
	r.Analysed["mint_call_sites_in_repo"] = len(all)
	rooted := map[ssa.Instruction]bool{}
	for _, h := range w.WhoReaches(ir.RootKinds, isMint) {
		rooted[h.Eff.Site] = true
	}
	for _, e := range all {
		if !rooted[e.Site] {
			r.Analysed["mint_sites_unreachable_from_roots"]++
		}
	}
	r.Require(len(rooted) == 1, "A1.mint-roots", "single-rooted-site", "", "exactly one MintCoins call site is reachable from ABCI roots", fmt.Sprintf("%d sites", len(rooted)))

	// A1 burn: no call site at all reachable from roots
	burnHits := w.WhoReaches(ir.RootKinds, isBurn)
	for _, h := range burnHits {
		r.Bad("A1.burn", "root="+fn(h.Root)+"|site="+fn(h.Eff.Fn), pos(c, h.Eff.Site), "no repo code burns coins", "BurnCoins reachable via "+pathStr(h.Path))
	}
	if len(burnHits) == 0 {
		r.OK("A1.burn", "none", "", "no BurnCoins call reachable from any root")
	}
	r.Control("A1.burn", "fixtures/c02", fixtureReach(c, "fixtures/c02", isBurn) > 0)
	r.Control("A1.mint-roots", "fixtures/c02", fixtureReach(c, "fixtures/c02", isMint) > 0)

	// A2: amount origin and guard along the chain
	for site := range rooted {
		mintAmount(c, site)
	}

	// "approved": the order a mint pays for went Raised -> Accepted under the quorum thresholds in force, and is marked
	// Completed in the turn that pays it (the transition rules of C03, which this property's "only through approved
	// purchase orders" and "exactly once" rest on)
	statusTypestate(c)
	blockerOrdering(c) // one-block delay between acceptance and mint, the completed mark, the queue pairing, the queues after a restart
	// ... on one and the same branch of state: the mint is not left on the parent context of a branch that may be dropped
	r.Analysed["functions_branching_state"] = oneContext(c, []string{"BEGIN", "END", "MSG"}, "enterprise")

	// A5 maccPerms
	mp, mpos, err := MaccPerms(c)
	if err != nil {
		r.Undecided("A5.maccperms", "eval", mpos, "app.maccPerms is a constant map literal", err.Error())
	} else {
		minters := holders(mp, permMinter)
		burners := holders(mp, permBurner)
		r.Require(sameSet(minters, setOf("enterprise", "transfer")), "A5.maccperms", "minter-holders", mpos, "Minter permission held exactly by {enterprise, transfer}", "holders: "+setStr(minters))
		r.Require(sameSet(burners, setOf("bonded_tokens_pool", "not_bonded_tokens_pool", "gov", "transfer")), "A5.maccperms", "burner-holders", mpos, "Burner permission held exactly by {bonded pool, not-bonded pool, gov, transfer}", "holders: "+setStr(burners))
		r.Analysed["module_accounts"] = len(mp)
	}

	// A5: no import of x/mint
	bad := 0
	for _, pk := range w.P.Pkgs {
		for imp := range pk.Imports {
			if strings.HasPrefix(imp, "github.com/cosmos/cosmos-sdk/x/mint") {
				bad++
				r.Bad("A5.no-mint-module", "import|"+ir.RelPkg(pk.PkgPath), ir.RelPkg(pk.PkgPath), "no repo package imports the SDK mint module", "imports "+imp)
			}
		}
	}
	if bad == 0 {
		r.OK("A5.no-mint-module", "none", "", "no repo package imports cosmos-sdk/x/mint")
	}
	r.Analysed["packages"] = len(w.P.Pkgs)

	// A7 capability: interfaces declaring MintCoins/BurnCoins
	nIfaces := 0
	for _, pk := range w.P.Pkgs {
		sc := pk.Types.Scope()
		for _, name := range sc.Names() {
			tn, ok := sc.Lookup(name).(*types.TypeName)
			if !ok {
				continue
			}
			it, ok := tn.Type().Underlying().(*types.Interface)
			if !ok {
				continue
			}
			nIfaces++
			for i := 0; i < it.NumMethods(); i++ {
				m := it.Method(i).Name()
				full := ir.RelPkg(pk.PkgPath) + "." + name
				if m == "MintCoins" {
					r.Require(full == "x/enterprise/types.BankKeeper", "A7.capability", "MintCoins|"+full, w.Pos(tn.Pos()), "only the enterprise BankKeeper interface may declare MintCoins", "declared by "+full)
				}
				if m == "BurnCoins" {
					r.Bad("A7.capability", "BurnCoins|"+full, w.Pos(tn.Pos()), "no repo interface declares BurnCoins", "declared by "+full)
				}
			}
		}
	}
	r.Analysed["repo_interfaces"] = nIfaces

	// A1: bank store key flows only into bankkeeper.NewBaseKeeper
	bankKeyFlow(c)
}

// mintAmount follows the coins argument of the mint site up the call chain.
func mintAmount(c *Ctx, site ssa.Instruction) {
	w, r := c.W, c.R
	call := site.(ssa.CallInstruction)
	cc := call.Common()
	if len(cc.Args) < 3 {
		r.Undecided("A2.mint-amount", "args", pos(c, site), "MintCoins(ctx, module, amt)", "unexpected arity")
		return
	}
	mod := w.ExprOf(cc.Args[1])
	r.Require(mod.Op == "const" && mod.Name == `"enterprise"`, "A2.mint-amount", "module|"+fn(site.Parent()), pos(c, site), "coins are minted into the enterprise module account", "module argument: "+mod.String())
	amt := w.ExprOf(cc.Args[2])
	ups := w.OriginsUp(site.Parent(), amt, 6)
	r.Analysed["mint_call_chains"] = len(ups)
	for _, up := range ups {
		e := w.Expand(up.E, 3)
		key := "top=" + fn(up.Top)
		// expected: NewCoins(list(<order>.Amount))
		var leaf *ir.Expr
		if e.Op == "call" && strings.HasSuffix(e.Name, "types.NewCoins") && len(e.Args) == 1 && e.Args[0].Op == "list" && len(e.Args[0].Args) == 1 {
			leaf = e.Args[0].Args[0]
		}
		if leaf == nil {
			r.Bad("A2.mint-amount", key, pos(c, site), "minted coins are NewCoins(<one order amount>)", "amount expression: "+e.String())
			continue
		}
		alts := nonZeroAlts(leaf)
		ok := len(alts) > 0
		var idKey *ir.Expr
		for _, a := range alts {
			if !isStateField(a, secPO, "Amount") {
				ok = false
			} else {
				idKey = stateKey(a)
			}
		}
		if !r.Require(ok, "A2.mint-amount", key, pos(c, site), "minted amount is exactly the Amount field of a purchase order read from the order section", "amount expression: "+leaf.String()) {
			continue
		}
		// guard: the outermost call site in Top must be guarded by Status == Accepted on the same order key
		if len(up.Chain) == 0 {
			r.Undecided("A2.mint-guard", key, pos(c, site), "mint call chain starts at a caller", "no call chain")
			continue
		}
		first := up.Chain[0]
		m := func(p ir.Pred) bool {
			op, x, y, ok := p.Cmp()
			if !ok || op != "==" {
				return false
			}
			for _, pr := range [][2]*ir.Expr{{x, y}, {y, x}} {
				a, b := w.Expand(pr[0], 3), pr[1]
				if b.Op != "const" || b.Name != "x/enterprise/types.StatusAccepted" {
					continue
				}
				good := false
				for _, alt := range nonZeroAlts(a) {
					if isStateField(alt, secPO, "Status") && stateKey(alt).String() == idKey.String() {
						good = true
					} else {
						return false
					}
				}
				if good {
					return true
				}
			}
			return false
		}
		// flat view: the guard may sit in the top function or in any helper between it and the mint call
		g := len(w.FlatGuarded(up.Top, func(in ssa.Instruction) bool { return in == site }, m, 2)) == 0
		if !g {
			// the order may come out of a list of checked orders collected beforehand
			g = collectedGuard(c, up.E, m)
		}
		r.Require(g, "A2.mint-guard", key, pos(c, first), "the minting call is reachable only when the same stored order has Status == Accepted", "no such guard on every path to the call in "+fn(up.Top))
		// id ranges over the accepted queue
		idOK := false
		var idDesc string
		if idKey != nil && idKey.Op == "call" && len(idKey.Args) == 1 {
			id := idKey.Args[0]
			idDesc = id.String()
			idOK = rangesOverSection(c, id, secAcceptedQ)
		}
		r.Require(idOK, "A2.mint-guard", "id-source|"+key, pos(c, first), "the order id is taken from the accepted-queue section", "id origin: "+idDesc)
	}
}

// rangesOverSection: v is an element of a slice returned by a call whose callees iterate
// (only) over the given store section.
func rangesOverSection(c *Ctx, id *ir.Expr, section string) bool {
	w := c.W
	var src *ir.Expr
	id.Walk(func(x *ir.Expr) bool {
		if x.Op == "call" && x.Callee != nil && src == nil {
			src = x
			return false
		}
		return true
	})
	if src == nil {
		// fully resolved origin (the queue read was inlined): the store accesses it names
		secs := map[string]bool{}
		id.Walk(func(x *ir.Expr) bool {
			switch {
			case x.Op == "state":
				secs[x.Name] = true
			case x.Op == "call" && (strings.HasSuffix(x.Name, "types.KVStorePrefixIterator") || strings.HasSuffix(x.Name, "types.KVStoreReversePrefixIterator")) && len(x.Args) == 2:
				secs[w.SectionOfKey(x.Args[1])] = true
			case x.Op == "call" && strings.HasSuffix(x.Name, "prefix.NewStore") && len(x.Args) == 2:
				secs[w.SectionOfKey(x.Args[1])] = true
			}
			return true
		})
		return len(secs) == 1 && secs[section]
	}
	reach := w.Reachable([]*ssa.Function{src.Callee})
	found := false
	// a helper handed the prefix (a queue descriptor's method): its accesses are resolved with this call's arguments
	params := map[string]*ir.Expr{}
	for i, p := range src.Callee.Params {
		if i < len(src.Args) {
			params[p.Name()] = src.Args[i]
		}
	}
	for _, e := range w.EffectsOf(src.Callee) {
		if e.Generic && e.SecExpr != nil && (e.Kind == "StoreIter" || e.Kind == "StoreRead") {
			if sec := w.SectionOfKey(ir.Subst(e.SecExpr, params)); sec == section {
				found = true
			} else {
				return false
			}
		}
	}
	for f := range reach {
		for _, e := range w.EffectsOf(f) {
			if e.Generic {
				continue // resolved at the call sites of the helper (re-created there)
			}
			if e.Kind == "StoreIter" || e.Kind == "StoreRead" {
				if e.Section == section {
					found = true
				} else {
					return false
				}
			}
		}
	}
	return found
}

func bankKeyFlow(c *Ctx) {
	w, r := c.W, c.R
	pk := w.Pkg("app")
	if pk == nil {
		r.Undecided("A1.bank-storekey", "app", "", "package app loaded", "missing")
		return
	}
	uses := 0
	for _, f := range pk.Syntax {
		var stack []ast.Node
		ast.Inspect(f, func(n ast.Node) bool {
			if n == nil {
				stack = stack[:len(stack)-1]
				return true
			}
			stack = append(stack, n)
			ix, ok := n.(*ast.IndexExpr)
			if !ok {
				return true
			}
			s, ok := ir.ConstString(pk, ix.Index)
			if !ok || s != "bank" {
				return true
			}
			if tv, ok := pk.TypesInfo.Types[ix]; !ok || !strings.Contains(tv.Type.String(), "KVStoreKey") {
				return true
			}
			uses++
			okUse := false
			if len(stack) >= 2 {
				if call, ok := stack[len(stack)-2].(*ast.CallExpr); ok {
					if obj := ir.CalleeObj(pk, call); obj != nil && obj.FullName() == "github.com/cosmos/cosmos-sdk/x/bank/keeper.NewBaseKeeper" {
						okUse = true
					}
				}
			}
			r.Require(okUse, "A1.bank-storekey", "use|"+w.Pos(ix.Pos())[:strings.LastIndex(w.Pos(ix.Pos()), ":")], w.Pos(ix.Pos()), "the bank store key is handed only to bankkeeper.NewBaseKeeper", "other use of keys[\"bank\"]")
			return true
		})
	}
	r.Floor("uses of the bank store key", uses, 1)
	// no repo function opens a KVStore with a key that is not a field of its own receiver
	n := 0
	for _, f := range w.Funcs {
		if w.IsGenerated(f) || ir.IsFixture(f) || !load.IsRepoPkg(ir.FnPkg(f)) {
			continue
		}
		for _, b := range f.Blocks {
			for _, in := range b.Instrs {
				call, ok := in.(ssa.CallInstruction)
				if !ok {
					continue
				}
				cc := call.Common()
				sc := cc.StaticCallee()
				if sc == nil || sc.Name() != "KVStore" || len(cc.Args) != 2 || !strings.Contains(sc.String(), "cosmos-sdk/types.Context") {
					continue
				}
				n++
				k := w.ExprOf(cc.Args[1])
				ok2 := k.Op == "field" && (k.Name == "storeKey" || k.Name == "key") || k.Op == "param" || k.Op == "call"
				if ir.RelPkg(ir.FnPkg(f).Path()) == "app" {
					continue // export helpers iterate the staking store for zero-height genesis (SDK boilerplate)
				}
				r.Require(ok2, "A1.bank-storekey", "kvstore|"+fn(f), pos(c, in), "module code opens only the store named by its keeper's own key field", "key expression: "+k.String())
			}
		}
	}
	r.Analysed["ctx.KVStore_call_sites"] = n
}

// maccPermsVar: the package-level variable of package app that holds the module account permissions — found by its
// use (the permissions argument of authkeeper.NewAccountKeeper), whatever it is called.
func maccPermsVar(c *Ctx) string {
	if c.maccVar != "" {
		return c.maccVar
	}
	c.maccVar = "maccPerms"
	for _, f := range c.W.Funcs {
		if pk := ir.FnPkg(f); pk == nil || ir.RelPkg(pk.Path()) != "app" {
			continue
		}
		for _, b := range f.Blocks {
			for _, in := range b.Instrs {
				call, ok := in.(ssa.CallInstruction)
				if !ok {
					continue
				}
				sc := call.Common().StaticCallee()
				if sc == nil || sc.Name() != "NewAccountKeeper" || ir.FnPkg(sc) == nil || !strings.HasSuffix(ir.FnPkg(sc).Path(), "x/auth/keeper") {
					continue
				}
				for _, a := range call.Common().Args {
					mt, isMap := a.Type().Underlying().(*types.Map)
					if !isMap {
						continue
					}
					if _, ok := mt.Elem().Underlying().(*types.Slice); !ok {
						continue
					}
					if u, ok := a.(*ssa.UnOp); ok {
						if g, ok := u.X.(*ssa.Global); ok {
							c.maccVar = g.Name()
						}
					}
				}
			}
		}
	}
	return c.maccVar
}
