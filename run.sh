#!/bin/bash
# Usage: ./run.sh --build | ./run.sh <Cnn|all> <quick|thorough> | ./run.sh --explain <violations.json>
set -u
cd "$(dirname "$0")"
export GOFLAGS=-mod=mod GOPROXY=off GOSUMDB=off GOTOOLCHAIN=local
unset GOWORK
build() {
  go build -o bin/mcverif ./cmd/mcverif || { echo "BROKEN-CHECKER: mcverif does not build" >&2; exit 2; }
}
case "${1:-}" in
  --build) build; exit 0 ;;
  --explain) cat "${2:?path}"; exit 0 ;;
  "") echo "usage: $0 --build | <Cnn> <quick|thorough>" >&2; exit 2 ;;
esac
build
exec ./bin/mcverif -prop "$1" -tier "${2:-quick}"
