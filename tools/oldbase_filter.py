#!/usr/bin/env python3
"""oldbase_filter.py <raw output> <rule-key substring>...: an analyser run made against an earlier /repo HEAD (a corpus patch that
no longer applies to today's tree) also reports the defects fixed since. Drop the obligations whose key contains one of the
given substrings, and the 'VIOLATION property=' line of every property that is left without a violated/undecided obligation."""
import re, sys
txt = open(sys.argv[1]).read()
drops = sys.argv[2:]
blocks = re.split(r'(?m)^(?=C\d\d (?:quick|thorough):)', txt)
out = []
for b in blocks:
    m = re.match(r'(C\d\d) (?:quick|thorough):', b)
    if not m:
        out.append(b)
        continue
    # remove dropped obligations (the header line and its indented detail lines)
    lines = b.split('\n')
    keep, skip = [], False
    for ln in lines:
        if re.match(r'  (VIOLATED|UNDECIDED) ', ln):
            skip = any(d in ln for d in drops)
        elif not ln.startswith('    '):
            skip = False
        if not skip:
            keep.append(ln)
    b2 = '\n'.join(keep)
    if not re.search(r'(?m)^  (VIOLATED|UNDECIDED) ', b2):
        b2 = re.sub(r'(?m)^VIOLATION property=%s .*\n?' % m.group(1), '', b2)
    out.append(b2)
sys.stdout.write(''.join(out))
