#!/bin/bash
# tools/b2.sh [filter]: run every round-2 benign patch under /tmp/benign2/out through the dev checker (8 at a time), print alarms.
export GOFLAGS=-mod=mod GOPROXY=off GOSUMDB=off GOTOOLCHAIN=local; unset GOWORK
cd /verif && go build -o bin/mcverif-dev ./cmd/mcverif || exit 2
[ -d /tmp/pristine ] || git -C /repo worktree add --detach /tmp/pristine HEAD -q
mkdir -p /tmp/b2res
one() {
  d=$1; n=$(echo $d | sed 's#/tmp/benign2/out/##; s#/#-2#')
  v=/tmp/vdev-$n; mkdir -p $v/evidence; rm -rf $v/fixtures; cp -r /verif/fixtures $v/fixtures
  for x in known_findings.json selftest seeded; do [ -e $v/$x ] || ln -s /verif/$x $v/$x; done
  /verif/bin/mcverif-dev -repo /tmp/pristine -verif $v -prop all -tier quick -patch $d/patch.diff > /tmp/b2res/$n.txt 2>&1
  echo "$n exit=$? $(grep -o 'VIOLATION property=C[0-9]*' /tmp/b2res/$n.txt | sed 's/VIOLATION property=//' | tr '\n' ' ')"
  rm -rf $v
}
export -f one
ls -d /tmp/benign2/out/C*/? | grep "${1:-.}" | xargs -P 8 -I{} bash -c 'one {}' | sort
