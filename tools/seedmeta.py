#!/usr/bin/env python3
"""Updates seeded/*/meta.json (detected_by, rules_reporting, validated_here) and benign/index.json (still_alarming)
from the last tools/corpus.sh run (/tmp/corpus/summary.json)."""
import json,os,re
rows=json.load(open('/tmp/corpus/summary.json'))
idx=json.load(open('/verif/benign/index.json'))
for r in rows:
    if r['kind']=='S':
        mp=f"/verif/seeded/{r['name']}/meta.json"
        if not os.path.exists(mp): continue
        m=json.load(open(mp))
        rules=sorted(set(v.split('|')[0] for v in r['viol'] if not v.startswith('floor')))
        was=m.get('detected_by')
        m['detected_by']=r['props']; m['rules_reporting']=rules
        vl=f"/verif/seeded/{r['name']}/validation.log"
        if 'validated_here' not in m and os.path.exists(vl):
            m['validated_here']=' / '.join(l.strip() for l in open(vl).read().split('\n') if re.match(r'^(APPLY|BUILD|SUITE|DEMO)',l))
        if 'history' not in m:
            m['history']='detected as built' if was is None else ''
        json.dump(m,open(mp,'w'),indent=1,ensure_ascii=False)
    else:
        e=idx.get(r['name'])
        if e is None: continue
        if r['props']:
            e['still_alarming']=r['props']
            e['silent_for']=sorted(set(e['silent_for'])-set(r['props']))
        elif 'still_alarming' in e:
            own=r['name'][:3]
            e['silent_for']=sorted(set(e['silent_for'])|set(e['still_alarming'])|{own})
            del e['still_alarming']; e.pop('limit',None)
json.dump(idx,open('/verif/benign/index.json','w'),indent=1,ensure_ascii=False)
print('updated')
