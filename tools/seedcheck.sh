#!/bin/bash
# tools/seedcheck.sh <Cnn> [srcdir] [name]: validate a sub-agent's seeded change and run the checks against it.
# Reads <srcdir>/_out/{patch.diff,demo_test.go,meta.json} (default /tmp/seed/<Cnn>); writes /verif/seeded/<Cnn>/.
set -u
id=$1; src=${2:-/tmp/seed/$id}; name=${3:-$id}; out=/verif/seeded/$name; val=/tmp/seedval/$name
export GOFLAGS=-mod=mod GOPROXY=off GOSUMDB=off GOTOOLCHAIN=local
[ -f "$src/_out/patch.diff" ] || { echo "no patch for $id"; exit 2; }
mkdir -p "$out" /tmp/seedval
cp "$src/_out/patch.diff" "$src/_out/demo_test.go" "$src/_out/meta.json" "$out/" 2>/dev/null
res() { echo "$1" | tee -a "$out/validation.log"; }
if [ -z "${ONLYCHECKS:-}" ]; then
git -C /repo worktree remove --force "$val" 2>/dev/null; rm -rf "$val"
git -C /repo worktree add --detach "$val" ${BASE:-HEAD} -q || exit 2
: > "$out/validation.log"
cd "$val"
if ! git apply "$out/patch.diff" 2>>"$out/validation.log"; then res "APPLY: FAILED"; git -C /repo worktree remove --force "$val"; exit 1; fi
res "APPLY: ok ($(git diff --stat | tail -1))"
if go build ./... 2>>"$out/validation.log"; then res "BUILD: ok"; else res "BUILD: FAILED"; fi
pkg=$(python3 -c "import json;print(json.load(open('$out/meta.json'))['demo_package'])")
dfile=$(python3 -c "import json;print(json.load(open('$out/meta.json'))['demo_file_in_package'])")
runcmd=$(python3 -c "import json;print(json.load(open('$out/meta.json'))['demo_run_cmd'])")
# full suite with the change, without the demo file
go test -count=1 -vet=off -timeout 25m ./... > /tmp/seedval/$name.suite.txt 2>&1
if grep -q "^FAIL\|^--- FAIL\|panic:" /tmp/seedval/$name.suite.txt; then res "SUITE with change: FAILED ($(grep -c '^FAIL' /tmp/seedval/$name.suite.txt) failing packages)"; grep "^FAIL\|^--- FAIL" /tmp/seedval/$name.suite.txt | head -5 >> "$out/validation.log"; else res "SUITE with change: all packages ok ($(grep -c '^ok' /tmp/seedval/$name.suite.txt) ok)"; fi
cp "$out/demo_test.go" "$val/$pkg/$dfile"
if (eval "$runcmd") > /tmp/seedval/$name.demo1.txt 2>&1; then res "DEMO with change: PASSED (expected FAIL)"; else res "DEMO with change: failed as expected"; fi
git checkout -q -- . ; git clean -fdq ; cp "$out/demo_test.go" "$val/$pkg/$dfile"; git status --short | grep -v "$dfile" | grep -v "go.mod\|go.sum" >> "$out/validation.log"
if (eval "$runcmd") > /tmp/seedval/$name.demo2.txt 2>&1; then res "DEMO without change: passed as expected"; else res "DEMO without change: FAILED (expected PASS)"; tail -5 /tmp/seedval/$name.demo2.txt >> "$out/validation.log"; fi
cd /verif
git -C /repo worktree remove --force "$val"; rm -rf "$val" /tmp/seedval/$name.*.txt
fi
[ -n "${SKIPCHECKS:-}" ] && exit 0
# the checks against the change (ONLYCHECKS=1: this part alone, after a SKIPCHECKS=1 run did the validation)
cd /verif
sed -i '/^CHECKS/,$d' "$out/validation.log"
exec 9>/tmp/repo.lock; flock 9
if [ -n "${BASE:-}" ] && ! git -C /repo apply --check "$out/patch.diff" 2>/dev/null; then
  # written against the earlier HEAD $BASE and no longer applicable to today's tree: checked in memory on that base
  flock -u 9
  [ -d /tmp/pristine_$BASE ] || git -C /repo worktree add --detach /tmp/pristine_$BASE $BASE -q
  go build -o bin/mcverif-seed ./cmd/mcverif && mkdir -p /tmp/vdev-seed/evidence && rm -rf /tmp/vdev-seed/fixtures && cp -r fixtures /tmp/vdev-seed/fixtures
  for x in known_findings.json selftest seeded; do [ -e /tmp/vdev-seed/$x ] || ln -s /verif/$x /tmp/vdev-seed/$x; done
  ./bin/mcverif-seed -repo /tmp/pristine_$BASE -verif /tmp/vdev-seed -harness harness-seed-$name -prop all -patch "$out/patch.diff" > "$out/checks.raw" 2>&1
  python3 tools/oldbase_filter.py "$out/checks.raw" "A2.unlock-guard|no-granter" > "$out/checks.txt"; rm -f "$out/checks.raw"
  res "CHECKS reporting a violation (in memory, on base $BASE): $(grep -o 'VIOLATION property=C[0-9]*' "$out/checks.txt" | sed 's/VIOLATION property=//' | tr '\n' ' ')"
  grep -E "^  (VIOLATED|UNDECIDED)" "$out/checks.txt" | head -12 >> "$out/validation.log"
elif git -C /repo apply "$out/patch.diff"; then
  ./run.sh all quick > "$out/checks.txt" 2>&1
  git -C /repo checkout -- . ; git -C /repo clean -fdq -- x app ante cmd types 2>/dev/null
  flock -u 9
  res "CHECKS reporting a violation: $(grep -o 'VIOLATION property=C[0-9]*' "$out/checks.txt" | sed 's/VIOLATION property=//' | tr '\n' ' ')"
  grep -E "^  (VIOLATED|UNDECIDED)" "$out/checks.txt" | head -12 >> "$out/validation.log"
else
  res "CHECKS: patch does not apply to /repo"
fi
git -C /repo status --short | head -3
