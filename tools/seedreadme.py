#!/usr/bin/env python3
"""Regenerates seeded/README.md from seeded/*/meta.json."""
import json,glob,os
rows=[]
for mp in sorted(glob.glob('/verif/seeded/C*/meta.json')):
    m=json.load(open(mp)); n=os.path.basename(os.path.dirname(mp))
    cl=(m.get('clause_broken') or '').replace('\n',' ').replace('|','/')[:170]
    need=(m.get('what_it_needs_to_manifest') or '').replace('\n',' ').replace('|','/')[:170]
    rows.append((n,cl,need,', '.join(m.get('detected_by',[])),', '.join(m.get('rules_reporting',[])[:4]),(m.get('history') or '').replace('|','/')[:220]))
out=["# Independently seeded breaking changes","",
"Each directory holds `patch.diff` (the change), `demo_test.go` (fails with the change, passes without), `meta.json` (what it breaks, what it needs to manifest, what was run here, which checks and rules report it), `validation.log` and `checks.txt` (output of `./run.sh all quick` with the change applied to /repo at the time it was validated; /repo was reverted straight afterwards).","",
"Authors were fresh sub-agents that saw only the property text and a private worktree. Every change below applies to the /repo HEAD it was written against, compiles, passes the whole existing suite, and its demonstration fails with it and passes without it (all re-run here with `tools/seedcheck.sh`). `Cnn` = round 1, `Cnn-2a/-2b` = round 2, `Cnn-3a/-3b` = round 3, `Cnn-4a/-4b` = round 4 (slips hidden in restructurings; nine properties), `Cnn-5a/-5b` = round 5 (the other eleven properties; each has a repaired sibling in `benign/Cnn-3a/-3b`), `Cnn-6a/-6b` = round 6 (all twenty properties; slips hidden in enum-verdict, collect-then-process, collector-method, pointer-helper and hand-written-iterator restructurings; each has a repaired sibling in `benign/Cnn-5a/-5b`), `Cnn-7a/-7b` = round 7 (all twenty properties; slips riding on small feature, fix and optimisation commits — new options, parameters and validations, caches and early exits, better error reporting, API migrations, edge-case handling, convenience routes; written against /repo 706e1c7, before fix F10; each has a repaired sibling in `benign/Cnn-6a/-6b`). A change whose `meta.json` carries `known_miss` is not reported by any check (one: C19-5a, a value-level slip in a hand-written decimal parser). The thorough tier replays every diff in memory against the checks listed in its `detected_by`.","",
"| id | clause broken | needs, to manifest | reported by | rules | note |","|---|---|---|---|---|---|"]
for r in rows: out.append('| '+' | '.join(r)+' |')
open('/verif/seeded/README.md','w').write('\n'.join(out)+'\n')
print(len(rows),'rows')
