#!/usr/bin/env python3
"""Regenerates MANIFEST.json from tools/claims.json (per-property claim texts)."""
import json
props=[json.loads(l) for l in open('/verif/properties.jsonl')]
claims=json.load(open('/verif/tools/claims.json'))
base=json.load(open('/root/.vp/BASELINE.json'))["cmd"]
checks=[];na=[]
for p in props:
    pid=p["id"]
    c=claims.get(pid)
    if c and c.get("claimed"):
        checks.append({"property_id":pid,"quick_cmd":f"./run.sh {pid} quick","thorough_cmd":f"./run.sh {pid} thorough",
          "evidence_file":f"/verif/evidence/{pid}.json","replay_cmd_template":"./run.sh --explain {path}","engine":"mcverif",
          "level_claimed":{"category":"other","text":c["text"],"design_ref":c.get("design_ref","DESIGN.md section 4 "+pid)},
          "level_note":c["note"],"technique":c["technique"]})
    else:
        na.append({"property_id":pid,"reason":(c or {}).get("reason","check under construction (see DESIGN.md section 4); not yet claimed")})
m={"version":1,"setup_cmd":"./run.sh --build",
 "hooks":{"guard":"verif","enable":"no hooks: every check is a static analysis of /repo's working tree (go/packages + go/ssa via a generated harness module)","baseline_off_cmd":base,"source_commits":[],"add_only":True},
 "engines":[{"name":"mcverif","path":"/verif/cmd/mcverif","serves_properties":[c["property_id"] for c in checks],"kind_free_text":"purpose-built Go static analyser (go/packages, go/ssa, repo-restricted CHA call graph, origin expressions, cut-reachability guards)"}],
 "checks":checks,"not_applicable":na,
 "notes":"Family: static analysis. All claims are level 'other': structural necessary conditions decided from source; see DESIGN.md for what each check does and does not decide. known_findings.json lists recorded defects and fix: commits."}
json.dump(m,open('/verif/MANIFEST.json','w'),indent=1)
print(len(checks),"claimed;",len(na),"not applicable")
