#!/bin/bash
# tools/ownseeded.sh [filter]: run every seeded change under the check of the property it was written against only (in memory,
# on the /repo HEAD it applies to: today's, 706e1c7 or b300cc9) and list those that check does not report. Development aid.
export GOFLAGS=-mod=mod GOPROXY=off GOSUMDB=off GOTOOLCHAIN=local; unset GOWORK
cd /verif && go build -o bin/mcverif-own ./cmd/mcverif || exit 2
mkdir -p /tmp/ownseeded
one() {
  d=$1; name=$(basename $d); prop=${name:0:3}
  v=/tmp/vdev-os$name; mkdir -p $v/evidence; rm -rf $v/fixtures; cp -r /verif/fixtures $v/fixtures
  for x in known_findings.json selftest seeded; do [ -e $v/$x ] || ln -s /verif/$x $v/$x; done
  out=/tmp/ownseeded/$name.txt
  for base in /tmp/pristine /tmp/pristine_706 /tmp/pristine_old; do
    /verif/bin/mcverif-own -repo $base -verif $v -harness harness-os$name -prop $prop -tier quick -patch $d/patch.diff > $out 2>&1
    grep -q "^patch: " $out || break
  done
  if [ "$base" != /tmp/pristine ]; then python3 /verif/tools/oldbase_filter.py $out "A3.restart-resets-outflow" "A7.decision-signer-form" "A11.parser|x/stream/types.FirstAddressFromStreamStoreKey|width" "A2.unlock-guard|no-granter" > $out.f; mv $out.f $out; fi
  n=$(grep -cE '^  (VIOLATED|UNDECIDED)' $out)
  echo "$name $n $(basename $base)"
  rm -rf $v
}
export -f one
ls -d /verif/seeded/C*/ | sed 's#/$##' | grep -E "${1:-.}" | xargs -P 10 -I{} bash -c "one {}" | sort > /tmp/ownseeded/summary.txt
echo "seeds: $(wc -l < /tmp/ownseeded/summary.txt); not reported by their own property's check:"
awk '$2==0' /tmp/ownseeded/summary.txt
