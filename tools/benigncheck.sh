#!/bin/bash
# tools/benigncheck.sh <name> <dir-with-patch.diff+note.txt>: run all quick checks against a behaviour-preserving
# refactoring (authored independently); any VIOLATION is a candidate false alarm. Stores it under /verif/benign/<name>/.
set -u
name=$1; src=$2; out=/verif/benign/$name
[ -f "$src/patch.diff" ] || { echo "$name: no patch"; exit 2; }
mkdir -p "$out"; cp "$src/patch.diff" "$out/"; cp "$src/note.txt" "$out/" 2>/dev/null
cd /verif
(
flock 9
if [ -n "$(git -C /repo status --short)" ]; then echo "$name: /repo dirty, refusing"; exit 3; fi
if ! git -C /repo apply "$out/patch.diff" 2>"$out/apply.err"; then echo "$name: APPLY FAILED"; exit 1; fi
./run.sh all quick > "$out/checks.txt" 2>&1
git -C /repo checkout -- . ; git -C /repo clean -fdq -- x app ante cmd types 2>/dev/null
) 9>/tmp/repo.lock
v=$(grep -o 'VIOLATION property=C[0-9]*' "$out/checks.txt" | sed 's/VIOLATION property=//' | tr '\n' ' ')
echo "$name: alarms: [${v}]"
grep -E "^  (VIOLATED|UNDECIDED)" "$out/checks.txt" | cut -c1-220 | head -12
