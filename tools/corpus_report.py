import glob, re, os, json, sys
rows=[]
for f in sorted(glob.glob('/tmp/corpus/*.txt')):
    name=os.path.basename(f)[:-4]
    kind,nm=name.split('-',1)
    txt=open(f).read()
    viol=re.findall(r'^  (?:VIOLATED|UNDECIDED) (\S+)', txt, re.M)
    props=sorted(set(re.findall(r'VIOLATION property=(C\d+)', txt)))
    broken='BROKEN' in txt or 'panic' in txt and 'analyser' in txt
    stale='patch: ' in txt
    old='OLDBASE' in txt
    # on the old base the only legitimate alarm is the F7 rule, already filtered; a VIOLATION line of C11 may remain
    if old:
        props=[p for p in props if any(True for v in re.findall(r'^%s quick:.*?(?=^C\d\d quick:|\Z)'%p, txt, re.M|re.S) if re.search(r'^  (VIOLATED|UNDECIDED)', v, re.M))]
    rows.append((kind,nm,props,viol,broken,stale,old))
def known_miss(name):
    try:
        return bool(json.load(open('/verif/seeded/%s/meta.json'%name)).get('known_miss'))
    except Exception:
        return False
miss=[r for r in rows if r[0]=='S' and not r[2] and not known_miss(r[1])]
kmiss=[r for r in rows if r[0]=='S' and not r[2] and known_miss(r[1])]
try:
    idx=json.load(open('/verif/benign/index.json'))
except Exception:
    idx={}
def unexpected(r):
    lim=set(idx.get(r[1],{}).get('still_alarming',[]))
    return [p for p in r[2] if p not in lim]
fa=[r for r in rows if r[0]=='B' and (unexpected(r) or r[4])]
lim=[r for r in rows if r[0]=='B' and r[2] and not unexpected(r) and not r[4]]
print("seeded: %d, detected %d, MISSED %d"%(sum(1 for r in rows if r[0]=='S'), sum(1 for r in rows if r[0]=='S' and r[2]), len(miss)))
for r in miss: print("  MISSED", r[1], "(stale patch)" if r[5] else "")
for r in kmiss: print("  known miss (value-level slip, recorded in its meta.json):", r[1])
print("benign: %d, silent %d, FALSE ALARMS %d"%(sum(1 for r in rows if r[0]=='B'), sum(1 for r in rows if r[0]=='B' and not r[2] and not r[4]), len(fa)))
print("benign with alarms recorded as limits of the analysis (higher-order / table-driven / anchor replaced): %d"%len(lim))
for r in lim: print("  LIMIT", r[1], r[2])
for r in fa:
    print("  ALARM", r[1], r[2], "(old base)" if r[6] else "", "BROKEN" if r[4] else "")
    if '-v' in sys.argv:
        for v in r[3][:8]: print("       ", v)
json.dump([dict(kind=r[0],name=r[1],props=r[2],viol=r[3]) for r in rows], open('/tmp/corpus/summary.json','w'))
