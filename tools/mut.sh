#!/bin/bash
# tools/mut.sh <props> <file> <python-regex-old> <new>  : apply one edit to /repo, run checks, revert.
props=$1; file=$2; old=$3; new=$4
cd /repo || exit 2
python3 - "$file" "$old" "$new" <<'PY'
import sys,re
p,old,new=sys.argv[1:4]
s=open(p).read()
s2,n=re.subn(old,new,s,count=1,flags=re.S)
if n!=1: print("MUTATION DID NOT APPLY"); sys.exit(3)
open(p,'w').write(s2)
PY
rc=$?
if [ $rc -ne 0 ]; then git -C /repo checkout -- . ; exit $rc; fi
( cd /repo && GOFLAGS=-mod=mod GOPROXY=off go build ./... 2>&1 | head -5 ) ; git -C /repo checkout go.mod go.sum 2>/dev/null
cd /verif && ./run.sh "$props" quick | grep -E "VIOLATED|UNDECIDED|VIOLATION|obligations" | head -12
git -C /repo checkout -- .
