#!/bin/bash
# tools/corpus_add.sh <filter>: like corpus.sh for the entries matching the filter, added to the results of a corpus.sh run that is
# still going or finished (keeps /tmp/corpus, own harness slots, own binary); run tools/corpus_report.py afterwards.
export GOFLAGS=-mod=mod GOPROXY=off GOSUMDB=off GOTOOLCHAIN=local; unset GOWORK
cd /verif && go build -o bin/mcverif-corpus2 ./cmd/mcverif || exit 2
head=$(git -C /repo rev-parse HEAD)
[ -d /tmp/pristine ] || git -C /repo worktree add --detach /tmp/pristine HEAD -q
(cd /tmp/pristine && git checkout -q --detach $head && git checkout -q -- . )
[ -d /tmp/pristine_old ] || git -C /repo worktree add --detach /tmp/pristine_old b300cc9 -q
[ -d /tmp/pristine_706 ] || git -C /repo worktree add --detach /tmp/pristine_706 706e1c7 -q
mkdir -p /tmp/vdev/evidence /tmp/corpus; rm -rf /tmp/vdev/fixtures; cp -r /verif/fixtures /tmp/vdev/fixtures
for x in known_findings.json selftest seeded; do [ -e /tmp/vdev/$x ] || ln -s /verif/$x /tmp/vdev/$x; done
: keep
list=$( (ls -d /verif/seeded/C*/ | sed 's#/$##' | sed 's#^#S #'; ls -d /verif/benign/C*/ | sed 's#/$##' | sed 's#^#B #') | grep -E "${1:-.}")
run1() {
  kind=$1; dir=$2; name=$(basename $dir); slot=$3
  out=/tmp/corpus/$kind-$name.txt
  ./bin/mcverif-corpus2 -repo /tmp/pristine -verif /tmp/vdev -harness harness-ac$slot -prop all -patch $dir/patch.diff > $out 2>&1
  if grep -q "^patch: " $out; then
    # written against an earlier /repo HEAD: 706e1c7 (before fix F10), else b300cc9 (before F7, F8, F9 as well); the rules that
    # report those defects, fixed since, are left out of the comparison
    ./bin/mcverif-corpus2 -repo /tmp/pristine_706 -verif /tmp/vdev -harness harness-ap$slot -prop all -patch $dir/patch.diff > $out.old 2>&1
    if grep -q "^patch: " $out.old; then
      ./bin/mcverif-corpus2 -repo /tmp/pristine_old -verif /tmp/vdev -harness harness-ao$slot -prop all -patch $dir/patch.diff > $out.old 2>&1
      python3 /verif/tools/oldbase_filter.py $out.old "A3.restart-resets-outflow" "A7.decision-signer-form" "A11.parser|x/stream/types.FirstAddressFromStreamStoreKey|width" "A2.unlock-guard|no-granter" > $out
    else
      python3 /verif/tools/oldbase_filter.py $out.old "A2.unlock-guard|no-granter" > $out
    fi
    echo "OLDBASE" >> $out; rm -f $out.old
  fi
}
export -f run1
echo "$list" | awk '{print $1" "$2" "(NR%12)}' | xargs -P 6 -L 1 bash -c 'run1 $0 $1 $2'
: report by corpus.sh
