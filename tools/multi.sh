#!/bin/bash
# tools/multi.sh <props> <patch>...: run the dev binary on each patch in parallel (in memory, on /tmp/pristine) and print the reporting rules; development aid
export GOFLAGS=-mod=mod GOPROXY=off GOSUMDB=off GOTOOLCHAIN=local; unset GOWORK
cd /verif && go build -o bin/mcverif-dev ./cmd/mcverif || exit 2
props=$1; shift
one() {
  props=$1; pth=$2; n=$(echo $pth | tr '/' '_' )
  v=/tmp/vdev-m$n; mkdir -p $v/evidence; rm -rf $v/fixtures; cp -r /verif/fixtures $v/fixtures
  for x in known_findings.json selftest seeded; do [ -e $v/$x ] || ln -s /verif/$x $v/$x; done
  /verif/bin/mcverif-dev -repo /tmp/pristine -verif $v -prop $props -tier quick -patch $pth > /tmp/multi_res/$n.txt 2>&1
  echo "$pth exit=$? $(grep -E '^  (VIOLATED|UNDECIDED)' /tmp/multi_res/$n.txt | awk '{print $2}' | cut -d'|' -f1 | sort | uniq -c | tr '\n' ' ')"
  rm -rf $v
}
export -f one
mkdir -p /tmp/multi_res
printf '%s\n' "$@" | xargs -P 8 -I{} bash -c "one $props {}" | sort
