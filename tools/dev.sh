#!/bin/bash
# tools/dev.sh <props> [patch.diff]: run quick checks on a pristine worktree (/tmp/pristine) with an optional in-memory patch,
# without touching /repo or /verif/evidence (development aid; not a registered command).
export GOFLAGS=-mod=mod GOPROXY=off GOSUMDB=off GOTOOLCHAIN=local; unset GOWORK
cd /verif && go build -o bin/mcverif-dev ./cmd/mcverif || exit 2
[ -d /tmp/pristine ] || git -C /repo worktree add --detach /tmp/pristine HEAD -q
mkdir -p /tmp/vdev/evidence; rm -rf /tmp/vdev/fixtures; cp -r /verif/fixtures /tmp/vdev/fixtures; for x in known_findings.json selftest seeded; do [ -e /tmp/vdev/$x ] || ln -s /verif/$x /tmp/vdev/$x; done
args=(-repo /tmp/pristine -verif /tmp/vdev -prop "$1" -tier "${TIER:-quick}")
[ -n "${2:-}" ] && args+=(-patch "$2")
exec ./bin/mcverif-dev "${args[@]}"
