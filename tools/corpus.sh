#!/bin/bash
# tools/corpus.sh [filter]: run every check against every corpus patch (seeded = must be detected, benign = must be silent)
# in memory (overlay on a pristine worktree), 12 at a time. Development aid; not a registered command.
export GOFLAGS=-mod=mod GOPROXY=off GOSUMDB=off GOTOOLCHAIN=local; unset GOWORK
cd /verif && go build -o bin/mcverif-corpus ./cmd/mcverif || exit 2
head=$(git -C /repo rev-parse HEAD)
[ -d /tmp/pristine ] || git -C /repo worktree add --detach /tmp/pristine HEAD -q
(cd /tmp/pristine && git checkout -q --detach $head && git checkout -q -- . )
[ -d /tmp/pristine_old ] || git -C /repo worktree add --detach /tmp/pristine_old b300cc9 -q
mkdir -p /tmp/vdev/evidence /tmp/corpus; rm -rf /tmp/vdev/fixtures; cp -r /verif/fixtures /tmp/vdev/fixtures
for x in known_findings.json selftest seeded; do [ -e /tmp/vdev/$x ] || ln -s /verif/$x /tmp/vdev/$x; done
rm -f /tmp/corpus/*.txt
list=$( (ls -d /verif/seeded/C*/ | sed 's#/$##' | sed 's#^#S #'; ls -d /verif/benign/C*/ | sed 's#/$##' | sed 's#^#B #') | grep -E "${1:-.}")
run1() {
  kind=$1; dir=$2; name=$(basename $dir); slot=$3
  out=/tmp/corpus/$kind-$name.txt
  ./bin/mcverif-corpus -repo /tmp/pristine -verif /tmp/vdev -harness harness-c$slot -prop all -patch $dir/patch.diff > $out 2>&1
  if grep -q "^patch: " $out; then
    ./bin/mcverif-corpus -repo /tmp/pristine_old -verif /tmp/vdev -harness harness-o$slot -prop all -patch $dir/patch.diff > $out.old 2>&1
    grep -v "A3.restart-resets-outflow\|A7.decision-signer-form\|A11.parser|x/stream/types.FirstAddressFromStreamStoreKey|width" $out.old > $out; echo "OLDBASE" >> $out; rm -f $out.old
  fi
}
export -f run1
echo "$list" | awk '{print $1" "$2" "(NR%12)}' | xargs -P 12 -L 1 bash -c 'run1 $0 $1 $2'
python3 /verif/tools/corpus_report.py
