#!/bin/bash
# tools/own.sh <outroot>: run each seed <outroot>/<Cnn>/<v>/_out/patch.diff under its own property only (in memory, on /tmp/pristine); development aid
export GOFLAGS=-mod=mod GOPROXY=off GOSUMDB=off GOTOOLCHAIN=local; unset GOWORK
cd /verif
export ROOT=$1
one() {
  pth=$1; id=${pth#$ROOT/}; id=${id%/_out/patch.diff}; prop=${id%/*}; n=$(echo $id | tr '/' '_')
  v=/tmp/vdev-o$n; mkdir -p $v/evidence; rm -rf $v/fixtures; cp -r /verif/fixtures $v/fixtures
  for x in known_findings.json selftest seeded; do [ -e $v/$x ] || ln -s /verif/$x $v/$x; done
  /verif/bin/mcverif-dev -repo /tmp/pristine -verif $v -prop $prop -tier quick -patch $pth > /tmp/multi_res/own_$n.txt 2>&1
  echo "$id exit=$? $(grep -E '^  (VIOLATED|UNDECIDED)' /tmp/multi_res/own_$n.txt | awk '{print $2}' | cut -d'|' -f1 | sort | uniq -c | tr '\n' ' ')"
  rm -rf $v
}
export -f one
ls $ROOT/*/*/_out/patch.diff | xargs -P 8 -I{} bash -c "one {}" | sort
