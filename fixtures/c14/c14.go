// Package c14 holds positive controls for the C14 error-discipline rule.
package c14

import (
	sdk "github.com/cosmos/cosmos-sdk/types"
)

type bank interface {
	SendCoinsFromModuleToAccount(ctx sdk.Context, senderModule string, recipientAddr sdk.AccAddress, amt sdk.Coins) error
}

// DropsBankError pays out and ignores whether the payment happened.
func DropsBankError(ctx sdk.Context, b bank, to sdk.AccAddress, c sdk.Coins) error {
	_ = b.SendCoinsFromModuleToAccount(ctx, "x", to, c)
	return nil
}

// OverwritesBankError assigns the error and overwrites it before reading it.
func OverwritesBankError(ctx sdk.Context, b bank, to sdk.AccAddress, c sdk.Coins) error {
	err := b.SendCoinsFromModuleToAccount(ctx, "x", to, c)
	err = b.SendCoinsFromModuleToAccount(ctx, "y", to, c)
	return err
}
