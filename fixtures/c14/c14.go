// Package c14 holds positive controls for the C14 error-discipline rule.
package c14

import (
	sdk "github.com/cosmos/cosmos-sdk/types"
)

type bank interface {
	SendCoinsFromModuleToAccount(ctx sdk.Context, senderModule string, recipientAddr sdk.AccAddress, amt sdk.Coins) error
}

// DropsBankError pays out and ignores whether the payment happened.
func DropsBankError(ctx sdk.Context, b bank, to sdk.AccAddress, c sdk.Coins) error {
	_ = b.SendCoinsFromModuleToAccount(ctx, "x", to, c)
	return nil
}

// OverwritesBankError assigns the error and overwrites it before reading it.
func OverwritesBankError(ctx sdk.Context, b bank, to sdk.AccAddress, c sdk.Coins) error {
	err := b.SendCoinsFromModuleToAccount(ctx, "x", to, c)
	err = b.SendCoinsFromModuleToAccount(ctx, "y", to, c)
	return err
}

// TestsOtherError checks an earlier error variable after the payment: the payment's own error is only returned on a path
// that is never taken, and the operation goes on to succeed (positive for the "tested" half of the rule).
func TestsOtherError(ctx sdk.Context, b bank, to sdk.AccAddress, c sdk.Coins) error {
	_, addrErr := sdk.AccAddressFromBech32(to.String())
	if addrErr != nil {
		return addrErr
	}
	err := b.SendCoinsFromModuleToAccount(ctx, "x", to, c)
	if addrErr != nil {
		return err
	}
	return nil
}

// TestsItsError is the correct form, through a wrapped error and a named local (negative).
func TestsItsError(ctx sdk.Context, b bank, to sdk.AccAddress, c sdk.Coins) (err error) {
	defer func() {}()
	if err = b.SendCoinsFromModuleToAccount(ctx, "x", to, c); err != nil {
		return err
	}
	err = b.SendCoinsFromModuleToAccount(ctx, "y", to, c)
	return err
}

type orders interface {
	Mark(ctx sdk.Context, id uint64) error
	Pay(ctx sdk.Context, id uint64) error
}

// MixesContexts marks the order on a branch of the state but pays on the parent context: when the branch is dropped the
// payment stays (positive for A6.one-context).
func MixesContexts(ctx sdk.Context, o orders, id uint64) {
	cacheCtx, write := ctx.CacheContext()
	if err := o.Mark(cacheCtx, id); err != nil {
		return
	}
	if err := o.Pay(ctx, id); err != nil {
		return
	}
	write()
}

// OneContext runs both steps on the branch (negative).
func OneContext(ctx sdk.Context, o orders, id uint64) {
	cacheCtx, write := ctx.CacheContext()
	if err := o.Mark(cacheCtx, id); err != nil {
		return
	}
	if err := o.Pay(cacheCtx.WithBlockHeight(1), id); err != nil {
		return
	}
	write()
}
