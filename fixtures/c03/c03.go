// Package c03 holds controls for the per-element rules of the tally and export loops (A3.element-carry).
package c03

type order struct {
	votes []bool
	done  bool
}

type record struct {
	first uint64
	n     int
}

// CountsAcrossElements: the counter is declared before the loop over the orders, so every order after the first is
// decided on the votes of the orders before it as well (positive).
func CountsAcrossElements(orders []*order, min int) {
	accepts := 0
	for _, o := range orders {
		for _, v := range o.votes {
			if v {
				accepts++
			}
		}
		if accepts >= min {
			o.done = true
		}
	}
}

// MarkerAcrossElements: the marker is set only for elements that have parts; an element without keeps the previous
// element's value (positive).
func MarkerAcrossElements(lists [][]uint64) []record {
	var out []record
	var first uint64
	for _, l := range lists {
		if len(l) > 0 {
			first = l[0]
		}
		out = append(out, record{first: first, n: len(l)})
	}
	return out
}

// CountsPerElement: the counter belongs to the turn of the loop (negative).
func CountsPerElement(orders []*order, min int) {
	for _, o := range orders {
		accepts := 0
		for _, v := range o.votes {
			if v {
				accepts++
			}
		}
		if accepts >= min {
			o.done = true
		}
	}
}

// RunningTotal: a total over all elements, read after the loop (negative).
func RunningTotal(lists [][]uint64) (int, uint64) {
	n := 0
	var sum uint64
	for _, l := range lists {
		for _, x := range l {
			if x > 0 {
				n++
				sum += x
			}
		}
	}
	return n, sum
}

// CappedRun: a count of what was taken so far that ends the whole run (negative).
func CappedRun(lists [][]uint64, max int) []record {
	var out []record
	taken := 0
	for _, l := range lists {
		if len(l) == 0 {
			continue
		}
		if taken >= max {
			break
		}
		taken++
		out = append(out, record{first: l[0], n: len(l)})
	}
	return out
}
