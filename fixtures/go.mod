module mcveriffixtures

go 1.22
// Placeholder: keeps these files out of module mcverif. They are copied into the generated
// harness module (which mirrors /repo/go.mod) and type-checked there.
