// Package c20 holds positive controls for the query rules.
package c20

import (
	storetypes "github.com/cosmos/cosmos-sdk/store/types"
	sdk "github.com/cosmos/cosmos-sdk/types"
	"github.com/cosmos/cosmos-sdk/types/query"
)

var prefix = []byte{0x01}

type K struct{ key storetypes.StoreKey }

// QueryWrites is a "query" that writes a store.
func (k K) QueryWrites(ctx sdk.Context) {
	ctx.KVStore(k.key).Set(prefix, []byte{1})
}

// BadPaginate returns `accumulate` as hit flag and appends outside the accumulate guard.
func (k K) BadPaginate(ctx sdk.Context, req *query.PageRequest) ([][]byte, error) {
	var out [][]byte
	_, err := query.FilteredPaginate(ctx.KVStore(k.key), req, func(key []byte, value []byte, accumulate bool) (bool, error) {
		out = append(out, value)
		return accumulate, nil
	})
	return out, err
}
