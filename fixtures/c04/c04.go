// Package c04 holds positive and negative controls for rule A3.lost-update.
package c04

type tally struct {
	who string
	n   uint64
}

// AddsToRangeCopy accumulates into the range variable: the element of ts is never changed.
func AddsToRangeCopy(ts []tally, who string, d uint64) []tally {
	for _, t := range ts {
		if t.who == who {
			t.n = t.n + d
		}
	}
	return ts
}

// AddsToIndexedCopy accumulates into a copy of the element.
func AddsToIndexedCopy(ts []tally, i int, d uint64) []tally {
	t := ts[i]
	t.n = t.n + d
	return ts
}

// AddsAndWritesBack is the correct form: the copy is stored back.
func AddsAndWritesBack(ts []tally, i int, d uint64) []tally {
	t := ts[i]
	t.n = t.n + d
	ts[i] = t
	return ts
}

// AddsThroughPointer is the other correct form.
func AddsThroughPointer(ts []tally, i int, d uint64) []tally {
	t := &ts[i]
	t.n = t.n + d
	return ts
}

type book struct {
	entries []tally
	byWho   map[string]*tally
}

// KeepsElementPointers keeps a pointer to the element it has just appended; a later append may move the entries to a
// new array and leave the kept pointers on the old one (positive control for the stale-element-pointer rule).
func KeepsElementPointers(b *book, who string, d uint64) {
	if t, ok := b.byWho[who]; ok {
		t.n += d
		return
	}
	b.entries = append(b.entries, tally{who, d})
	b.byWho[who] = &b.entries[len(b.entries)-1]
}

type indexed struct {
	entries []tally
	byWho   map[string]int
}

// KeepsPositions keeps the position instead: the correct form (negative control).
func KeepsPositions(b *indexed, who string, d uint64) {
	if i, ok := b.byWho[who]; ok {
		b.entries[i].n += d
		return
	}
	b.byWho[who] = len(b.entries)
	b.entries = append(b.entries, tally{who, d})
}

// PointersAfterFilling takes the pointers once the list is complete: correct as well (negative control).
func PointersAfterFilling(names []string) map[string]*tally {
	var list []tally
	for _, n := range names {
		list = append(list, tally{n, 0})
	}
	out := map[string]*tally{}
	for i := range list {
		out[list[i].who] = &list[i]
	}
	return out
}

// PointersWhileFilling takes each pointer while the list still grows (positive control, local form).
func PointersWhileFilling(names []string) map[string]*tally {
	var list []tally
	out := map[string]*tally{}
	for _, n := range names {
		list = append(list, tally{n, 0})
		out[n] = &list[len(list)-1]
	}
	return out
}
