// Package c04 holds positive and negative controls for rule A3.lost-update.
package c04

type tally struct {
	who string
	n   uint64
}

// AddsToRangeCopy accumulates into the range variable: the element of ts is never changed.
func AddsToRangeCopy(ts []tally, who string, d uint64) []tally {
	for _, t := range ts {
		if t.who == who {
			t.n = t.n + d
		}
	}
	return ts
}

// AddsToIndexedCopy accumulates into a copy of the element.
func AddsToIndexedCopy(ts []tally, i int, d uint64) []tally {
	t := ts[i]
	t.n = t.n + d
	return ts
}

// AddsAndWritesBack is the correct form: the copy is stored back.
func AddsAndWritesBack(ts []tally, i int, d uint64) []tally {
	t := ts[i]
	t.n = t.n + d
	ts[i] = t
	return ts
}

// AddsThroughPointer is the other correct form.
func AddsThroughPointer(ts []tally, i int, d uint64) []tally {
	t := &ts[i]
	t.n = t.n + d
	return ts
}
