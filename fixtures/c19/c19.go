// Package c19 is a positive control for the argument-hook rule of C19 (A7.cli-amount|hook).
package c19

import (
	"strconv"
	"strings"
)

// RewritesAmount re-formats the amount argument through a float64 before the command runs: the conversion then receives a
// rounded amount although its own text is unchanged (must be reported).
func RewritesAmount(_ *struct{}, args []string) error {
	v, err := strconv.ParseFloat(args[0], 64)
	if err != nil {
		return err
	}
	args[0] = strconv.FormatFloat(v, 'f', -1, 64)
	return nil
}

// TidiesArgs trims the amount and lower-cases the denominations: the digits reach the conversion as typed (must stay silent).
func TidiesArgs(_ *struct{}, args []string) error {
	args[0] = strings.TrimSpace(args[0])
	args[1] = strings.ToLower(args[1])
	return nil
}
