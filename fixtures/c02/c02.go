// Package c02 is a positive control: deliberate violations the C02 rules must detect.
package c02

import (
	sdk "github.com/cosmos/cosmos-sdk/types"
)

type bank interface {
	MintCoins(ctx sdk.Context, name string, amt sdk.Coins) error
	BurnCoins(ctx sdk.Context, name string, amt sdk.Coins) error
}

// Burns calls BurnCoins: rule A1.burn must see it.
func Burns(ctx sdk.Context, b bank, c sdk.Coins) error { return b.BurnCoins(ctx, "x", c) }

// Mints calls MintCoins outside the enterprise begin blocker.
func Mints(ctx sdk.Context, b bank, c sdk.Coins) error { return b.MintCoins(ctx, "x", c) }
