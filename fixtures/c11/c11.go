// Package c11 is a positive control for the floating-point hazard rule.
package c11

import "time"

// Seconds converts through float64.
func Seconds(d time.Duration) int64 { return int64(d.Seconds() * 1.5) }
