// Package c18 is a positive control for the prefix-immutability rule.
package c18

var Prefix = []byte{0x01}

// Mutate assigns to a package-level prefix variable after init.
func Mutate() { Prefix = append(Prefix, 0x02) }
