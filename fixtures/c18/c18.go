// Package c18 is a positive control for the prefix-immutability rule.
package c18

import (
	storetypes "github.com/cosmos/cosmos-sdk/store/types"
	sdk "github.com/cosmos/cosmos-sdk/types"
)

var Prefix = []byte{0x01}

// Mutate assigns to a package-level prefix variable after init.
func Mutate() { Prefix = append(Prefix, 0x02) }

// BoundedScan iterates a raw key range whose end is an ordinary key: the end bound of a store
// iterator is exclusive, so the record stored under `last` is never visited (positive control for
// the iterator-end-bound rule).
func BoundedScan(ctx sdk.Context, key storetypes.StoreKey, first, last []byte) int {
	it := ctx.KVStore(key).Iterator(first, last)
	defer it.Close()
	n := 0
	for ; it.Valid(); it.Next() {
		n++
	}
	return n
}

var section = []byte{0x11}

func sized(addr []byte) []byte {
	key := make([]byte, 0, len(section)+2*len(addr))
	key = append(key, section...)
	return append(key, addr...)
}

func complete(prefix, sender []byte) []byte { return append(prefix, sender...) }

// KeysOfOneReceiverShared builds the keys of several senders on one pre-sized receiver prefix: they share its array
// (positive control for the append-alias rule).
func KeysOfOneReceiverShared(receiver []byte, senders [][]byte) [][]byte {
	var keys [][]byte
	prefix := sized(receiver)
	for _, s := range senders {
		keys = append(keys, complete(prefix, s))
	}
	return keys
}

// TwoKeysFromOnePrefix is the straight-line form.
func TwoKeysFromOnePrefix(receiver, a, b []byte) ([]byte, []byte) {
	prefix := sized(receiver)
	return append(prefix, a...), append(prefix, b...)
}

// KeysOfOneReceiverFresh builds the prefix anew for every key (negative control).
func KeysOfOneReceiverFresh(receiver []byte, senders [][]byte) [][]byte {
	var keys [][]byte
	for _, s := range senders {
		keys = append(keys, complete(sized(receiver), s))
	}
	return keys
}

// KeysFromSection appends to the literal section prefix, which has no room to spare (negative control).
func KeysFromSection(senders [][]byte) [][]byte {
	var keys [][]byte
	for _, s := range senders {
		keys = append(keys, append(section, s...))
	}
	return keys
}

// KeysFromClippedPrefix clips the capacity before sharing the prefix (negative control).
func KeysFromClippedPrefix(receiver []byte, senders [][]byte) [][]byte {
	var keys [][]byte
	prefix := sized(receiver)
	prefix = prefix[:len(prefix):len(prefix)]
	for _, s := range senders {
		keys = append(keys, complete(prefix, s))
	}
	return keys
}
