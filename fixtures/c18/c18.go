// Package c18 is a positive control for the prefix-immutability rule.
package c18

import (
	storetypes "github.com/cosmos/cosmos-sdk/store/types"
	sdk "github.com/cosmos/cosmos-sdk/types"
)

var Prefix = []byte{0x01}

// Mutate assigns to a package-level prefix variable after init.
func Mutate() { Prefix = append(Prefix, 0x02) }

// BoundedScan iterates a raw key range whose end is an ordinary key: the end bound of a store
// iterator is exclusive, so the record stored under `last` is never visited (positive control for
// the iterator-end-bound rule).
func BoundedScan(ctx sdk.Context, key storetypes.StoreKey, first, last []byte) int {
	it := ctx.KVStore(key).Iterator(first, last)
	defer it.Close()
	n := 0
	for ; it.Valid(); it.Next() {
		n++
	}
	return n
}
