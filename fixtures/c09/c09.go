// Package c09 holds positive and negative controls for rule A12.decode-fresh.
package c09

type rec struct {
	name string
	n    uint64
}

// Unmarshal fills in the fields present in bz and leaves the others (the generated protobuf code behaves so).
func (r *rec) Unmarshal(bz []byte) error {
	if len(bz) > 0 {
		r.name = string(bz)
	}
	return nil
}

func (r *rec) Reset() { *r = rec{} }

// SharedAcrossLoop decodes every record into one variable declared before the loop.
func SharedAcrossLoop(raw [][]byte) []rec {
	var out []rec
	var r rec
	for _, bz := range raw {
		_ = r.Unmarshal(bz)
		out = append(out, r)
	}
	return out
}

// TwoInARow decodes two records into the same variable.
func TwoInARow(a, b []byte) (rec, rec) {
	var r rec
	_ = r.Unmarshal(a)
	first := r
	_ = r.Unmarshal(b)
	return first, r
}

// SharedInCallback decodes inside a per-record callback into a variable of the enclosing function.
func SharedInCallback(raw [][]byte, each func(func([]byte))) []rec {
	var out []rec
	var r rec
	each(func(bz []byte) {
		_ = r.Unmarshal(bz)
		out = append(out, r)
	})
	return out
}

// FreshPerIteration is the correct form: the variable belongs to the iteration.
func FreshPerIteration(raw [][]byte) []rec {
	var out []rec
	for _, bz := range raw {
		var r rec
		_ = r.Unmarshal(bz)
		out = append(out, r)
	}
	return out
}

// ResetEachTime is the other correct form.
func ResetEachTime(raw [][]byte) []rec {
	var out []rec
	var r rec
	for _, bz := range raw {
		r.Reset()
		_ = r.Unmarshal(bz)
		out = append(out, r)
	}
	return out
}

// ClearedInCallback stores a whole new value before decoding.
func ClearedInCallback(raw [][]byte, each func(func([]byte))) []rec {
	var out []rec
	var r rec
	each(func(bz []byte) {
		r = rec{}
		_ = r.Unmarshal(bz)
		out = append(out, r)
	})
	return out
}
