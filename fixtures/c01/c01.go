// Package c01 holds positive controls for the nondeterminism-source rules.
package c01

import (
	"math/rand"
	"time"

	storetypes "github.com/cosmos/cosmos-sdk/store/types"
)

var cache int

// Sources touches every forbidden source once.
func Sources(m map[string]int) int {
	t := time.Now().Unix()
	go func() {}()
	s := 0
	for _, v := range m {
		s += v
	}
	cache = s
	return int(t) + rand.Intn(10) + s
}

// --- out-of-band state held by a module object (positive controls for A6.keeper-mutation) ---

type tracker struct{ pending bool }

// Keeper is a long-lived module object by structure: it holds a store key.
type Keeper struct {
	key storetypes.StoreKey
	t   *tracker
	m   map[uint64]bool
}

func (t *tracker) set() { t.pending = true }

// MutatesHeld writes through a pointer the (by-value) keeper holds.
func (k Keeper) MutatesHeld() { k.t.pending = true }

// MutatesMap updates a map the keeper holds.
func (k Keeper) MutatesMap(id uint64) { k.m[id] = true }

// MutatesViaHelper hands the held pointer to a method that writes through it.
func (k Keeper) MutatesViaHelper() { k.t.set() }

// MutatesField writes a field through a pointer receiver.
func (k *Keeper) MutatesField() { k.t = nil }

// LocalCopyOnly changes only its own copy of the keeper: not a finding.
func (k Keeper) LocalCopyOnly() Keeper { k.t = nil; return k }
