// Package c01 holds positive controls for the nondeterminism-source rules.
package c01

import (
	"math/rand"
	"time"

	storetypes "github.com/cosmos/cosmos-sdk/store/types"
)

var cache int

// Sources touches every forbidden source once.
func Sources(m map[string]int) int {
	t := time.Now().Unix()
	go func() {}()
	s := 0
	for _, v := range m {
		s += v
	}
	cache = s
	return int(t) + rand.Intn(10) + s
}

// --- out-of-band state held by a module object (positive controls for A6.keeper-mutation) ---

type tracker struct{ pending bool }

// Keeper is a long-lived module object by structure: it holds a store key.
type Keeper struct {
	key storetypes.StoreKey
	t   *tracker
	m   map[uint64]bool
	dec *decoded // memo of a pure function, read only against its witness (control: not a finding)
	byI *byID    // remembers by id alone: a hit hands out whatever some earlier branch of state stored
	mix *mixed   // compares the witness, but is filled with a value that does not come from the witness
}

// --- memos held by a module object (controls for the content-validated memo exception, props/memo.go) ---

type decoded struct {
	w string
	v int
	n bool
}

func (d *decoded) get(w string) (int, bool) {
	if !d.n || d.w != w {
		return 0, false
	}
	return d.v, true
}

func (d *decoded) set(w string, v int) { d.w, d.v, d.n = w, v, true }

func parse(s string) int { return len(s) }

// ValidatedMemo remembers parse(w) and reads it back only for the same w.
func (k Keeper) ValidatedMemo(w string) int {
	if v, ok := k.dec.get(w); ok {
		return v
	}
	v := parse(w)
	k.dec.set(w, v)
	return v
}

type byID struct {
	m map[uint64]int
}

func (b *byID) get(id uint64) (int, bool) { v, ok := b.m[id]; return v, ok }
func (b *byID) set(id uint64, v int)      { b.m[id] = v }

// UnvalidatedMemo hands out what was remembered for the id, whatever it was computed from.
func (k Keeper) UnvalidatedMemo(id uint64, w string) int {
	if v, ok := k.byI.get(id); ok {
		return v
	}
	v := parse(w)
	k.byI.set(id, v)
	return v
}

type mixed struct {
	w string
	v int
}

func (m *mixed) get(w string) (int, bool) {
	if m.w != w {
		return 0, false
	}
	return m.v, true
}

func (m *mixed) set(w string, v int) { m.w, m.v = w, v }

// MixedMemo pairs the witness with a value that depends on something else as well.
func (k Keeper) MixedMemo(w string, height int) int {
	if v, ok := k.mix.get(w); ok {
		return v
	}
	v := parse(w) + height
	k.mix.set(w, v)
	return v
}

func (t *tracker) set() { t.pending = true }

// MutatesHeld writes through a pointer the (by-value) keeper holds.
func (k Keeper) MutatesHeld() { k.t.pending = true }

// MutatesMap updates a map the keeper holds.
func (k Keeper) MutatesMap(id uint64) { k.m[id] = true }

// MutatesViaHelper hands the held pointer to a method that writes through it.
func (k Keeper) MutatesViaHelper() { k.t.set() }

// MutatesField writes a field through a pointer receiver.
func (k *Keeper) MutatesField() { k.t = nil }

// LocalCopyOnly changes only its own copy of the keeper: not a finding.
func (k Keeper) LocalCopyOnly() Keeper { k.t = nil; return k }
