// Package c01 holds positive controls for the nondeterminism-source rules.
package c01

import (
	"math/rand"
	"time"
)

var cache int

// Sources touches every forbidden source once.
func Sources(m map[string]int) int {
	t := time.Now().Unix()
	go func() {}()
	s := 0
	for _, v := range m {
		s += v
	}
	cache = s
	return int(t) + rand.Intn(10) + s
}
