package main

import (
	"fmt"
	"os"
	"path/filepath"
	"strconv"
	"strings"
)

// applyUnifiedDiff applies a `git diff` to files under repo in memory and returns the new
// contents keyed by absolute path. Hunks must match exactly at (or near) their stated position.
func applyUnifiedDiff(repo, diffPath string) (map[string][]byte, error) {
	b, err := os.ReadFile(diffPath)
	if err != nil {
		return nil, err
	}
	lines := strings.Split(string(b), "\n")
	out := map[string][]byte{}
	var cur string
	var src []string
	var dst []string
	pos := 0
	flush := func() {
		if cur != "" {
			dst = append(dst, src[pos:]...)
			out[cur] = []byte(strings.Join(dst, "\n"))
		}
	}
	for i := 0; i < len(lines); i++ {
		l := lines[i]
		switch {
		case strings.HasPrefix(l, "+++ "):
			flush()
			name := strings.TrimPrefix(strings.TrimSpace(l[4:]), "b/")
			if name == "/dev/null" {
				cur = ""
				continue
			}
			cur = filepath.Join(repo, name)
			data, err := os.ReadFile(cur)
			if err != nil {
				data = nil // new file
			}
			src = strings.Split(string(data), "\n")
			dst = nil
			pos = 0
		case strings.HasPrefix(l, "@@ ") && cur != "":
			// @@ -a,b +c,d @@
			f := strings.Fields(l)
			if len(f) < 3 {
				return nil, fmt.Errorf("bad hunk header %q", l)
			}
			old := strings.TrimPrefix(f[1], "-")
			start, _ := strconv.Atoi(strings.Split(old, ",")[0])
			var want, repl []string
			j := i + 1
			for ; j < len(lines); j++ {
				h := lines[j]
				if strings.HasPrefix(h, "@@ ") || strings.HasPrefix(h, "diff --git") || strings.HasPrefix(h, "--- ") && j+1 < len(lines) && strings.HasPrefix(lines[j+1], "+++ ") {
					break
				}
				if h == `\ No newline at end of file` {
					continue
				}
				switch {
				case strings.HasPrefix(h, " "):
					want = append(want, h[1:])
					repl = append(repl, h[1:])
				case strings.HasPrefix(h, "-"):
					want = append(want, h[1:])
				case strings.HasPrefix(h, "+"):
					repl = append(repl, h[1:])
				case h == "":
					// blank context line whose leading space was stripped, or end of diff
					if j == len(lines)-1 {
						continue
					}
					want = append(want, "")
					repl = append(repl, "")
				}
			}
			i = j - 1
			at := -1
			for _, delta := range []int{0, 1, -1, 2, -2, 3, -3, 5, -5, 10, -10, 20, -20, 40, -40} {
				cand := start - 1 + delta
				if cand < pos || cand+len(want) > len(src) {
					continue
				}
				ok := true
				for k := range want {
					if src[cand+k] != want[k] {
						ok = false
						break
					}
				}
				if ok {
					at = cand
					break
				}
			}
			if at < 0 {
				return nil, fmt.Errorf("hunk at line %d of %s does not apply", start, cur)
			}
			dst = append(dst, src[pos:at]...)
			dst = append(dst, repl...)
			pos = at + len(want)
		}
	}
	flush()
	if len(out) == 0 {
		return nil, fmt.Errorf("no file sections in %s", diffPath)
	}
	return out, nil
}
