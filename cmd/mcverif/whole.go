package main

import (
	"fmt"
	"sort"
	"strings"
	"time"

	"golang.org/x/tools/go/callgraph"
	"golang.org/x/tools/go/callgraph/cha"
	"golang.org/x/tools/go/callgraph/vta"
	"golang.org/x/tools/go/ssa"
	"golang.org/x/tools/go/ssa/ssautil"

	"mcverif/internal/check"
	"mcverif/internal/ir"
	"mcverif/internal/load"
)

// deepTarget is an SDK function whose reachability from repo roots is cross-checked on the
// whole-program VTA call graph (the quick tier does not look inside SDK code).
type deepTarget struct {
	Prop    string
	Rule    string
	Func    string   // full name of the SDK function
	Allowed []string // root (sub)kinds from which it may be reachable
	What    string
}

var deepTargets = []deepTarget{
	{"C02", "A1.deep-mint", "(github.com/cosmos/cosmos-sdk/x/bank/keeper.BaseKeeper).MintCoins", []string{"BEGIN:enterprise"}, "bank MintCoins"},
	{"C02", "A1.deep-burn", "(github.com/cosmos/cosmos-sdk/x/bank/keeper.BaseKeeper).BurnCoins", []string{}, "bank BurnCoins"},
	{"C04", "A1.deep-undelegate", "(github.com/cosmos/cosmos-sdk/x/bank/keeper.BaseKeeper).UndelegateCoinsFromModuleToAccount", []string{"ANTE:enterprise"}, "bank UndelegateCoinsFromModuleToAccount"},
	{"C04", "A1.deep-delegate", "(github.com/cosmos/cosmos-sdk/x/bank/keeper.BaseKeeper).DelegateCoinsFromAccountToModule", []string{"BEGIN:enterprise"}, "bank DelegateCoinsFromAccountToModule"},
	{"C05", "A1.deep-undelegate", "(github.com/cosmos/cosmos-sdk/x/bank/keeper.BaseKeeper).UndelegateCoinsFromModuleToAccount", []string{"ANTE:enterprise"}, "bank UndelegateCoinsFromModuleToAccount"},
	{"C10", "A1.deep-send", "(github.com/cosmos/cosmos-sdk/x/bank/keeper.BaseKeeper).SendCoinsFromModuleToAccount", []string{"MSG:stream", "BEGIN:enterprise", "MIGR"}, "bank SendCoinsFromModuleToAccount (MIGR: the upgrade handler runs SDK module migrations, trusted)"},
	{"C10", "A1.deep-m2m", "(github.com/cosmos/cosmos-sdk/x/bank/keeper.BaseKeeper).SendCoinsFromModuleToModule", []string{"MSG:stream", "MIGR"}, "bank SendCoinsFromModuleToModule (MIGR: SDK module migrations, trusted)"},
	{"C10", "A1.deep-a2m", "(github.com/cosmos/cosmos-sdk/x/bank/keeper.BaseKeeper).SendCoinsFromAccountToModule", []string{"MSG:stream", "MIGR"}, "bank SendCoinsFromAccountToModule (MIGR: SDK module migrations, trusted)"},
	{"C20", "A1.deep-query-mint", "(github.com/cosmos/cosmos-sdk/x/bank/keeper.BaseKeeper).MintCoins", []string{"BEGIN:enterprise"}, "bank MintCoins (queries excluded)"},
}

// deepCheck loads the whole program, builds the VTA call graph and, for the property's deep
// targets, searches from every repo root. Only paths whose intermediate nodes are repo
// functions, or SDK functions entered from repo code, are considered; the report names the
// repo call site through which the SDK is entered.
func deepCheck(r *check.Result, repo, verif, prop string) {
	var mine []deepTarget
	for _, t := range deepTargets {
		if t.Prop == prop {
			mine = append(mine, t)
		}
	}
	if len(mine) == 0 {
		return
	}
	t0 := time.Now()
	p, err := load.Load(load.Options{Repo: repo, VerifDir: verif, Whole: true, HarnessDir: "harness-whole", NoFixtures: true})
	if err != nil {
		r.Undecided("A1.deep", "load", "", "the whole program (all dependencies) loads", err.Error())
		return
	}
	w := ir.NewWorld(p)
	if err := w.DiscoverRoots(); err != nil {
		r.Undecided("A1.deep", "roots", "", "roots discovered", err.Error())
		return
	}
	all := ssautil.AllFunctions(p.SSA)
	cg := vta.CallGraph(all, cha.CallGraph(p.SSA))
	r.Analysed["whole_program_functions"] = len(all)
	r.Analysed["whole_program_packages"] = len(p.SSA.AllPackages())
	byName := map[string]*ssa.Function{}
	for f := range all {
		byName[f.String()] = f
	}
	for _, t := range mine {
		target := byName[t.Func]
		if target == nil {
			r.Undecided(t.Rule, "target", "", "SDK function "+t.Func+" exists in the whole program", "not found")
			continue
		}
		tn := cg.Nodes[target]
		if tn == nil {
			r.OK(t.Rule, "unreferenced", "", t.What+" is not called by anything in the program")
			continue
		}
		// backward closure restricted to: SDK functions of the bank keeper package chain until a repo function is reached
		reachers := backwardRepoEntries(cg, tn)
		hits := 0
		for _, kind := range ir.RootKinds {
			for _, root := range w.Roots[kind] {
				sub := w.SubRootKind(kind, root)
				// which repo functions reachable from this root (repo graph) enter the SDK towards the target?
				for f := range w.Reachable([]*ssa.Function{root}) {
					if via, ok := reachers[f]; ok {
						hits++
						allowed := false
						for _, a := range t.Allowed {
							if sub == a || strings.HasPrefix(sub, a+":") || strings.HasPrefix(sub, a+".") {
								allowed = true
							}
						}
						if prop == "C20" && kind != "QUERY" {
							continue
						}
						r.Require(allowed, t.Rule, "root="+ir.FuncName(root)+"|via="+ir.FuncName(f), w.Pos(f.Pos()),
							t.What+" is reachable (whole-program VTA graph, through SDK code) only from "+fmt.Sprint(t.Allowed),
							"reachable from "+sub+" via "+ir.FuncName(f)+" -> "+via)
					}
				}
			}
		}
		r.Analysed["deep_hits_"+t.Rule] = hits
	}
	r.Analysed["whole_program_seconds"] = int(time.Since(t0).Seconds())
}

// backwardRepoEntries walks the call graph backwards from the target through non-repo
// functions and returns the repo functions that call into that cone, with the first SDK
// function entered.
func backwardRepoEntries(cg *callgraph.Graph, target *callgraph.Node) map[*ssa.Function]string {
	out := map[*ssa.Function]string{}
	seen := map[*callgraph.Node]bool{target: true}
	q := []*callgraph.Node{target}
	depth := map[*callgraph.Node]int{target: 0}
	for len(q) > 0 {
		n := q[0]
		q = q[1:]
		if depth[n] > 6 {
			continue // SDK-internal chains longer than this are not attributed to a repo call
		}
		for _, e := range n.In {
			c := e.Caller
			if c.Func == nil {
				continue
			}
			if ir.InScope(ir.FnPkg(c.Func)) {
				// a call of a function-typed parameter (ante `next`, iterator callbacks) runs code
				// supplied by the caller: it is not attributed to this function
				if e.Site != nil && !e.Site.Common().IsInvoke() {
					switch e.Site.Common().Value.(type) {
					case *ssa.Parameter, *ssa.FreeVar:
						continue
					}
				}
				if _, ok := out[c.Func]; !ok {
					out[c.Func] = n.Func.String()
				}
				continue
			}
			if !seen[c] {
				seen[c] = true
				depth[c] = depth[n] + 1
				q = append(q, c)
			}
		}
	}
	_ = sort.Strings
	return out
}
