package main

import (
	"flag"
	"fmt"
	"os"
	"runtime/debug"
	"sort"
	"strconv"
	"strings"

	"mcverif/internal/check"
	"mcverif/internal/ir"
	"mcverif/internal/load"
	"mcverif/internal/props"
)

func main() {
	prop := flag.String("prop", "", "property id (C01..C20) or 'all'")
	tier := flag.String("tier", "quick", "quick|thorough")
	repo := flag.String("repo", "/repo", "repository root")
	verif := flag.String("verif", "/verif", "verif dir")
	debug := flag.String("debug", "", "roots|effects|sum:<func>")
	variantIdx := flag.Int("variant", -1, "internal: run self-test variant i of -prop and print the verdict")
	patch := flag.String("patch", "", "development: analyse the tree with this unified diff applied in memory (overlay)")
	harness := flag.String("harness", "", "development: name of the generated harness directory under -verif")
	flag.Parse()
	if *variantIdx >= 0 {
		runVariant(*repo, *verif, *prop, *variantIdx)
		return
	}
	seed := 0
	if s := os.Getenv("VERIF_SEED"); s != "" {
		seed, _ = strconv.Atoi(s)
	}

	var overlay map[string][]byte
	if *patch != "" {
		ov, err := applyUnifiedDiff(*repo, *patch)
		if err != nil {
			fmt.Fprintln(os.Stderr, "patch:", err)
			os.Exit(2)
		}
		overlay = ov
	}
	p, err := load.Load(load.Options{Repo: *repo, VerifDir: *verif, Overlay: overlay, HarnessDir: *harness})
	if err != nil {
		failAll(*prop, *tier, *verif, seed, "cannot load /repo: "+err.Error())
		os.Exit(1)
	}
	w := ir.NewWorld(p)
	if err := w.DiscoverRoots(); err != nil {
		failAll(*prop, *tier, *verif, seed, "root discovery: "+err.Error())
		os.Exit(1)
	}
	if *debug != "" {
		dbg(w, *debug)
		return
	}
	known, err := check.LoadKnown(*verif + "/known_findings.json")
	if err != nil {
		fmt.Fprintln(os.Stderr, "known_findings.json:", err)
		os.Exit(2)
	}
	var ids []string
	if *prop == "all" {
		for id := range props.Registry {
			ids = append(ids, id)
		}
		sort.Strings(ids)
	} else {
		ids = strings.Split(*prop, ",")
	}
	exit := 0
	for _, id := range ids {
		ck, ok := props.Registry[id]
		if !ok {
			fmt.Fprintln(os.Stderr, "unknown property", id)
			os.Exit(2)
		}
		r := check.New(id, *tier)
		r.Analysed["packages_loaded"] = len(p.Pkgs)
		r.Analysed["functions_in_scope"] = len(w.Funcs)
		if *tier == "thorough" {
			r.AfterCheck = func() {
				selfTest(r, *repo, *verif, id)
				deepCheck(r, *repo, *verif, id)
			}
		}
		props.SetWorld(w)
		if pat := os.Getenv("MCSUM"); pat != "" {
			// debugging aid: print the summaries of the functions whose name contains MCSUM
			for _, f := range w.Funcs {
				if strings.Contains(ir.FuncName(f), pat) {
					fmt.Fprintln(os.Stderr, "SUMMARY", ir.FuncName(f), "=", w.Summary(f).String())
				}
			}
		}
		cx := &props.Ctx{W: w, R: r}
		cx.InstallMemos()
		code := runOne(ck, cx, *verif, known, seed)
		if code > exit {
			exit = code
		}
	}
	os.Exit(exit)
}

func runOne(ck props.Checker, c *props.Ctx, verif string, known []check.Known, seed int) (code int) {
	defer func() {
		if x := recover(); x != nil {
			// a construct the analyser cannot handle leaves the property uncertified: fail the check
			fmt.Fprintf(os.Stderr, "analyser panic in %s: %v\n%s\n", c.R.Prop, x, debug.Stack())
			c.R.Undecided("analyser", "panic", "", "the analyser handles every construct of the current tree", fmt.Sprint("panic: ", x))
			code = c.R.Finish(verif, known, seed)
		}
	}()
	ck(c)
	if c.R.AfterCheck != nil {
		c.R.AfterCheck()
	}
	return c.R.Finish(verif, known, seed)
}

// failAll reports an undecidable tree (load / type-check failure) as a violation of the
// property being checked: an uncertified property must not pass.
func failAll(prop, tier, verif string, seed int, msg string) {
	ids := strings.Split(prop, ",")
	if prop == "all" || prop == "" {
		ids = nil
		for id := range props.Registry {
			ids = append(ids, id)
		}
		sort.Strings(ids)
	}
	for _, id := range ids {
		r := check.New(id, tier)
		r.Explanation = "the repository could not be loaded or type-checked; nothing was certified"
		r.Undecided("load", "repo", "", "the repository loads and type-checks", msg)
		r.Finish(verif, nil, seed)
	}
}

func dbg(w *ir.World, what string) {
	switch {
	case what == "roots":
		var kinds []string
		for k := range w.Roots {
			kinds = append(kinds, k)
		}
		sort.Strings(kinds)
		for _, k := range kinds {
			fmt.Println(k, len(w.Roots[k]))
			for _, f := range w.Roots[k] {
				fmt.Println("   ", ir.FuncName(f))
			}
		}
	case strings.HasPrefix(what, "effects"):
		for _, f := range w.Funcs {
			if w.IsGenerated(f) {
				continue
			}
			for _, e := range w.EffectsOf(f) {
				if i := strings.Index(what, ":"); i >= 0 && what[i+1:] != e.Kind {
					continue
				}
				fmt.Printf("%-12s %-40s %-45s %s %s\n", e.Kind, e.Method, e.Section, ir.FuncName(f), w.InstrPos(e.Site))
			}
		}
	case strings.HasPrefix(what, "sum:"):
		f := w.LookupFunc(what[4:])
		if f == nil {
			fmt.Println("not found")
			os.Exit(1)
		}
		fmt.Println(w.Summary(f))
		fmt.Println("EXPANDED:", w.Expand(w.Summary(f), 4))
	case strings.HasPrefix(what, "preds:"):
		f := w.LookupFunc(what[6:])
		if f == nil {
			fmt.Println("not found")
			os.Exit(1)
		}
		for _, b := range f.Blocks {
			for _, in := range b.Instrs {
				if iff, ok := in.(interface{ Operands([]*ir.Value) []*ir.Value }); ok {
					_ = iff
				}
			}
		}
		w.DumpPreds(f)
	}
}
