package main

import (
	"bytes"
	"encoding/json"
	"fmt"
	"os"
	"os/exec"
	"path/filepath"
	"regexp"
	"runtime"
	"sort"
	"strings"
	"sync"

	"mcverif/internal/check"
	"mcverif/internal/ir"
	"mcverif/internal/load"
	"mcverif/internal/props"
)

type variant struct {
	File    string `json:"file"`
	Pattern string `json:"pattern"`
	Replace string `json:"replace"`
	Note    string `json:"note"`
	Benign  bool   `json:"benign"`
	Patch   string `json:"patch"` // alternative to file/pattern: a unified diff under /verif (independently seeded change)
}

func loadVariants(verif, prop string) ([]variant, error) {
	b, err := os.ReadFile(filepath.Join(verif, "selftest", prop+".json"))
	if err != nil {
		if os.IsNotExist(err) {
			return nil, nil
		}
		return nil, err
	}
	var vs []variant
	if err := json.Unmarshal(b, &vs); err != nil {
		return nil, err
	}
	for i := range vs {
		if vs[i].Patch != "" && !filepath.IsAbs(vs[i].Patch) {
			vs[i].Patch = filepath.Join(verif, vs[i].Patch)
		}
	}
	// independently seeded changes that this property's check is recorded to detect
	seeds, _ := filepath.Glob(filepath.Join(verif, "seeded", "C*", "meta.json"))
	sort.Strings(seeds)
	for _, mp := range seeds {
		mb, err := os.ReadFile(mp)
		if err != nil {
			continue
		}
		var meta struct {
			DetectedBy []string `json:"detected_by"`
			Clause     string   `json:"clause_broken"`
		}
		if json.Unmarshal(mb, &meta) != nil {
			continue
		}
		for _, d := range meta.DetectedBy {
			if d == prop {
				dir := filepath.Dir(mp)
				vs = append(vs, variant{File: "seeded/" + filepath.Base(dir) + "/patch.diff", Patch: filepath.Join(dir, "patch.diff"), Note: "independently seeded change " + filepath.Base(dir)})
			}
		}
	}
	// independently authored behaviour-preserving refactorings on which this property's check must stay silent
	if ib, err := os.ReadFile(filepath.Join(verif, "benign", "index.json")); err == nil {
		var idx map[string]struct {
			SilentFor []string `json:"silent_for"`
			What      string   `json:"what"`
		}
		if json.Unmarshal(ib, &idx) == nil {
			var names []string
			for n := range idx {
				names = append(names, n)
			}
			sort.Strings(names)
			for _, n := range names {
				for _, p := range idx[n].SilentFor {
					if p == prop {
						vs = append(vs, variant{File: "benign/" + n + "/patch.diff", Patch: filepath.Join(verif, "benign", n, "patch.diff"), Benign: true, Note: "independent behaviour-preserving refactoring " + n})
					}
				}
			}
		}
	}
	return vs, nil
}

// runVariant (child process): apply one scripted edit in memory, re-load, run the checker and
// report on stdout. Nothing is written to disk and nothing of /repo is executed.
func runVariant(repo, verif, prop string, idx int) {
	vs, err := loadVariants(verif, prop)
	if err != nil || idx >= len(vs) {
		fmt.Println("VARIANT", idx, "ERROR", err)
		return
	}
	v := vs[idx]
	var overlay map[string][]byte
	if v.Patch != "" {
		ov, err := applyUnifiedDiff(repo, v.Patch)
		if err != nil {
			fmt.Println("VARIANT", idx, "STALE", firstLine(err.Error()))
			return
		}
		overlay = ov
	} else {
		path := filepath.Join(repo, v.File)
		src, err := os.ReadFile(path)
		if err != nil {
			fmt.Println("VARIANT", idx, "STALE cannot read", v.File)
			return
		}
		re, err := regexp.Compile(v.Pattern)
		if err != nil {
			fmt.Println("VARIANT", idx, "ERROR bad pattern:", err)
			return
		}
		loc := re.FindSubmatchIndex(src)
		if loc == nil {
			fmt.Println("VARIANT", idx, "STALE pattern does not match", v.File)
			return
		}
		var dst []byte
		dst = re.Expand(dst, []byte(v.Replace), src, loc)
		out := append(append(append([]byte{}, src[:loc[0]]...), dst...), src[loc[1]:]...)
		overlay = map[string][]byte{path: out}
	}
	p, err := load.Load(load.Options{Repo: repo, VerifDir: verif, Overlay: overlay, HarnessDir: "harness-selftest", Reuse: true})
	if err != nil {
		fmt.Println("VARIANT", idx, "NOCOMPILE", firstLine(err.Error()))
		return
	}
	w := ir.NewWorld(p)
	if err := w.DiscoverRoots(); err != nil {
		fmt.Println("VARIANT", idx, "DETECTED root-discovery:", firstLine(err.Error()))
		return
	}
	known, _ := check.LoadKnown(verif + "/known_findings.json")
	r := check.New(prop, "selftest")
	func() {
		defer func() {
			if x := recover(); x != nil {
				r.Undecided("analyser", "panic", "", "analyser handles the variant", fmt.Sprint(x))
			}
		}()
		props.SetWorld(w)
		cx := &props.Ctx{W: w, R: r}
		cx.InstallMemos()
		props.Registry[prop](cx)
	}()
	un := r.Unresolved(known)
	if len(un) == 0 {
		fmt.Println("VARIANT", idx, "MISSED", v.Note)
		return
	}
	rules := map[string]bool{}
	for _, o := range un {
		rules[o.Rule] = true
	}
	var rs []string
	for k := range rules {
		rs = append(rs, k)
	}
	sort.Strings(rs)
	fmt.Println("VARIANT", idx, "DETECTED", strings.Join(rs, ","), "|", un[0].Key)
}

func firstLine(s string) string {
	if i := strings.IndexByte(s, '\n'); i >= 0 {
		s = s[:i]
	}
	if len(s) > 200 {
		s = s[:200]
	}
	return s
}

// selfTest (parent): runs every variant of the property in a child process, a few at a time.
func selfTest(r *check.Result, repo, verif, prop string) {
	vs, err := loadVariants(verif, prop)
	if err != nil {
		r.Broken = append(r.Broken, "selftest matrix unreadable: "+err.Error())
		return
	}
	if len(vs) == 0 {
		return
	}
	type res struct {
		idx  int
		line string
	}
	if _, err := load.GenHarness(load.Options{Repo: repo, VerifDir: verif, HarnessDir: "harness-selftest"}); err != nil {
		r.Broken = append(r.Broken, "selftest harness: "+err.Error())
		return
	}
	results := make([]string, len(vs))
	sem := make(chan struct{}, selfTestWorkers())
	var wg sync.WaitGroup
	for i := range vs {
		wg.Add(1)
		go func(i int) {
			defer wg.Done()
			sem <- struct{}{}
			defer func() { <-sem }()
			cmd := exec.Command(os.Args[0], "-prop", prop, "-variant", fmt.Sprint(i), "-repo", repo, "-verif", verif)
			var out bytes.Buffer
			cmd.Stdout = &out
			cmd.Stderr = &out
			cmd.Run()
			line := ""
			for _, l := range strings.Split(out.String(), "\n") {
				if strings.HasPrefix(l, "VARIANT ") {
					line = l
				}
			}
			if line == "" {
				line = fmt.Sprintf("VARIANT %d ERROR no result: %s", i, firstLine(out.String()))
			}
			results[i] = line
		}(i)
	}
	wg.Wait()
	st := map[string]int{"variants": len(vs)}
	var detail []map[string]string
	for i, line := range results {
		f := strings.Fields(line)
		verdict := "ERROR"
		if len(f) >= 3 {
			verdict = f[2]
		}
		if vs[i].Benign {
			st["benign"]++
			switch verdict {
			case "MISSED":
				st["benign_silent"]++
			case "DETECTED":
				st["benign_false_alarm"]++
				r.Broken = append(r.Broken, fmt.Sprintf("false alarm on behaviour-preserving edit %d (%s: %s): %s", i, vs[i].File, vs[i].Note, line))
			case "NOCOMPILE":
				st["did_not_compile"]++
			case "STALE":
				st["stale"]++
			default:
				st["errors"]++
				r.Broken = append(r.Broken, "self-test variant failed to run: "+line)
			}
			detail = append(detail, map[string]string{"edit": vs[i].File + ": " + vs[i].Note, "expect": "silent", "result": strings.Join(f[2:], " ")})
			continue
		}
		switch verdict {
		case "DETECTED":
			st["compiled"]++
			st["detected"]++
		case "MISSED":
			st["compiled"]++
			st["missed"]++
			r.Broken = append(r.Broken, fmt.Sprintf("self-test variant %d (%s: %s) compiled but was not detected", i, vs[i].File, vs[i].Note))
		case "NOCOMPILE":
			st["did_not_compile"]++
		case "STALE":
			st["stale"]++
		default:
			st["errors"]++
			r.Broken = append(r.Broken, "self-test variant failed to run: "+line)
		}
		detail = append(detail, map[string]string{"edit": vs[i].File + ": " + vs[i].Note, "result": strings.Join(f[2:], " ")})
	}
	r.SelfTest = st
	if r.Extra == nil {
		r.Extra = map[string]any{}
	}
	r.Extra["selftest_detail"] = detail
	fmt.Printf("  self-test: %d scripted edits: %d breaking compiled, %d detected, %d missed; %d benign, %d silent, %d false alarms; %d stale, %d not compiling\n", st["variants"], st["compiled"], st["detected"], st["missed"], st["benign"], st["benign_silent"], st["benign_false_alarm"], st["stale"], st["did_not_compile"])
}

// selfTestWorkers: how many variant replays run at a time (each child loads the program: about 1 GB and one core).
func selfTestWorkers() int {
	n := runtime.NumCPU() - 2
	if n < 4 {
		n = 4
	}
	if n > 14 {
		n = 14
	}
	return n
}
